#!/bin/bash
# usage: tryseed.sh <patch.diff> <property> [tier]  - apply a seeded change to /repo, run the check, undo the change
set -u
P=$1; ID=$2; T=${3:-quick}
# a patch rebased onto the fixed tree takes precedence
if [ -f "$(dirname $P)/patch.rebased.diff" ]; then P="$(dirname $P)/patch.rebased.diff"; fi
if ! git -C /repo apply --check "$P" 2>/dev/null; then
  if ! git -C /repo apply -3 --check "$P" 2>/dev/null; then echo "PATCH DOES NOT APPLY: $P"; exit 3; fi
fi
git -C /repo apply "$P" || git -C /repo apply -3 "$P"
/verif/check $ID $T > /tmp/tryseed.$$.log 2>&1
rc=$?
git -C /repo reset -q; git -C /repo checkout -- .
grep -E "^VIOLATION|^  clause=|^$ID |ENGINE" /tmp/tryseed.$$.log | head -12
echo "exit=$rc"
rm -f /tmp/tryseed.$$.log
git -C /repo status --short | head -3

#!/bin/bash
# usage: thorough_on_copy.sh [ids...] - run the thorough tier of every check on copies of /repo and /verif (HEAD of each), so that
# work in the real trees (seeded changes applied to /repo, edits in /verif) does not disturb it. Summary lines go to stdout.
T=${TH_DIR:-/tmp/th}
mkdir -p $T
git -C /repo worktree remove --force $T/repo 2>/dev/null; git -C /repo worktree add -f --detach $T/repo HEAD >/dev/null 2>&1
git -C /verif worktree remove --force $T/verif 2>/dev/null; git -C /verif worktree add -f --detach $T/verif HEAD >/dev/null 2>&1
export VERIF_HOME=$T/verif VERIF_REPO=$T/repo VERIF_WORKERS=${VERIF_WORKERS:-8}
IDS=${@:-$(python3 -c "import json;print(' '.join(c['property_id'] for c in json.load(open('/verif/MANIFEST.json'))['checks']))")}
for id in $IDS; do
  s=$(date +%s)
  $T/verif/check $id thorough > $T/$id.log 2>&1; rc=$?
  e=$(date +%s)
  echo "$id rc=$rc $((e-s))s $(grep -c '^VIOLATION' $T/$id.log) violations, $(grep -c '^KNOWN-FINDING' $T/$id.log) known | $(tail -1 $T/$id.log | cut -c1-160)"
done
git -C /repo worktree remove --force $T/repo; git -C /verif worktree remove --force $T/verif

#!/usr/bin/env python3
"""mutants.py phase1|phase2|report  - a breadth check of the checks with mechanical mutants (development tool, not a registered check).

phase1: for every mutant of the target files (mc/cmd/mutate: statement deletion, negated conditions, swapped operators, flipped
        literals) apply it to a scratch copy of /repo, build, and run the repository's own tests of the affected packages.
        A mutant the tests do not notice is a *survivor* (saved as a diff under /tmp/mut/survivors/).
phase2: run the quick tier of the checks mapped to the file against each survivor (on copies: VERIF_REPO / VERIF_HOME,
        VERIF_FAILFAST), record which clauses report it -> /verif/mutants/results.jsonl
report: summary table.
Everything works on worktrees under /tmp/mut; /repo and /verif are only read."""
import json, os, re, subprocess, sys, glob, hashlib, random, time
from concurrent.futures import ThreadPoolExecutor

ENV = dict(os.environ, GOFLAGS="-mod=mod", GOPROXY="off", GOSUMDB="off", GOTOOLCHAIN="local")
M = "/tmp/mut"
TARGETS = {
 # file: (test packages, checks in the order tried)
 "broker/client.go":   (["./broker"], ["C20", "C07", "C08", "C12", "C16", "C14", "C06", "C13", "C15", "C11"]),
 "broker/backend.go":  (["./broker"], ["C06", "C11", "C08", "C13", "C12", "C07", "C14", "C16", "C15"]),
 "broker/engine.go":   (["./broker"], ["C14", "C12", "C20"]),
 "client/client.go":   (["./client"], ["C09", "C10", "C17", "C15"]),
 "client/service.go":  (["./client"], ["C17", "C15"]),
 "client/future/future.go": (["./client/..."], ["C09", "C17"]),
 "client/future/store.go":  (["./client/..."], ["C09", "C17"]),
 "session/id_counter.go":   (["./session", "./client", "./broker"], ["C18"]),
 "session/packet_store.go": (["./session", "./client", "./broker"], ["C18", "C15", "C08", "C09"]),
 "session/memory_session.go": (["./session", "./client", "./broker"], ["C18", "C09", "C08"]),
 "topic/tree.go":      (["./topic", "./broker", "./client"], ["C04", "C05", "C06", "C11", "C17"]),
 "transport/base_conn.go": (["./client", "./broker"], ["C19", "C03", "C12"]),
 "packet/stream.go":   (["./packet", "./client"], ["C03", "C19", "C02"]),
 "packet/publish.go":  (["./packet"], ["C01", "C02"]),
 "packet/connect.go":  (["./packet"], ["C01", "C02"]),
 "packet/subscribe.go": (["./packet"], ["C01", "C02"]),
 "packet/suback.go":   (["./packet"], ["C01", "C02"]),
 "packet/unsubscribe.go": (["./packet"], ["C01", "C02"]),
 "packet/connack.go":  (["./packet"], ["C01", "C02"]),
 "packet/identified.go": (["./packet"], ["C01", "C02"]),
 "packet/naked.go":    (["./packet"], ["C01", "C02"]),
 "packet/buffer.go":   (["./packet"], ["C01", "C02"]),
 "packet/packet.go":   (["./packet"], ["C01", "C02", "C03"]),
 "packet/message.go":  (["./packet"], ["C01", "C02"]),
}

def sh(cmd, cwd=None, timeout=600, env=ENV):
    try:
        p = subprocess.run(cmd, shell=True, cwd=cwd, env=env, capture_output=True, text=True, errors="replace", timeout=timeout)
        return p.returncode, p.stdout + p.stderr
    except subprocess.TimeoutExpired as e:
        return 124, "timeout"

def setup_tool():
    os.makedirs(M, exist_ok=True)
    rc, out = sh(f"go build -o {M}/mutate ./cmd/mutate", cwd="/verif/mc")
    assert rc == 0, out

def worktree(path, repo):
    sh(f"git -C {repo} worktree remove --force {path}")
    rc, out = sh(f"git -C {repo} worktree add -f --detach {path} HEAD")
    assert rc == 0, out

def phase1(workers=6, limit_per_file=None):
    setup_tool()
    os.makedirs(f"{M}/survivors", exist_ok=True)
    jobs = []
    for f in TARGETS:
        rc, out = sh(f"{M}/mutate -list /repo/{f}")
        ms = [json.loads(l) for l in out.strip().split("\n") if l.startswith("{")]
        if limit_per_file:
            random.Random(1).shuffle(ms)
            ms = ms[:limit_per_file]
        for m in ms:
            jobs.append((f, m))
    print(len(jobs), "mutants", flush=True)
    done_file = f"{M}/phase1.jsonl"
    done = set()
    if os.path.exists(done_file):
        for l in open(done_file):
            d = json.loads(l); done.add((d["file"], d["id"]))
    jobs = [j for j in jobs if (j[0], j[1]["id"]) not in done]
    print(len(jobs), "to do", flush=True)
    for k in range(workers):
        worktree(f"{M}/w{k}", "/repo")
    import queue, threading
    q = queue.Queue()
    for j in jobs: q.put(j)
    lock = threading.Lock()
    def work(k):
        wt = f"{M}/w{k}"
        while True:
            try: f, m = q.get_nowait()
            except queue.Empty: return
            sh(f"git checkout -- .", cwd=wt)
            rc, out = sh(f"{M}/mutate -apply {m['id']} /repo/{f} {wt}/{f}")
            res = dict(file=f, **{k2: m[k2] for k2 in ("id", "line", "op", "desc", "func")})
            if rc != 0:
                res["status"] = "tool-error"
            else:
                rc, out = sh("go build ./... 2>&1 && go vet ./" + os.path.dirname(f) + " 2>&1 | head -0", cwd=wt, timeout=300)
                if rc != 0:
                    res["status"] = "no-compile"
                else:
                    pk = " ".join(TARGETS[f][0])
                    rc, out = sh(f"go test -vet=off -count=1 -timeout 170s {pk} 2>&1", cwd=wt, timeout=200)
                    fails = [t for t in re.findall(r"^--- FAIL: (\S+)", out, re.M) if t != "ExampleClient"]
                    bad_pk = [l for l in out.split("\n") if l.startswith("FAIL\t") and "gomqtt/client\t" not in l]
                    hung = rc == 124 or "panic: test timed out" in out
                    if fails or bad_pk or hung or ("panic:" in out and "ExampleClient" not in out):
                        res["status"] = "killed-by-tests"
                        res["by"] = (fails or ["(package failure)"])[:3]
                    else:
                        res["status"] = "survivor"
                        rc, diff = sh("git diff", cwd=wt)
                        name = f.replace("/", "_") + f".{m['id']}"
                        open(f"{M}/survivors/{name}.diff", "w").write(diff)
                        res["diff"] = name
            with lock:
                open(done_file, "a").write(json.dumps(res) + "\n")
                print(res["file"], res["id"], res["status"], res.get("desc", "")[:80], flush=True)
    ts = [threading.Thread(target=work, args=(k,)) for k in range(workers)]
    for t in ts: t.start()
    for t in ts: t.join()
    for k in range(workers):
        sh(f"git -C /repo worktree remove --force {M}/w{k}")

def phase2(par=2, workers=8, per_file=12, maxchecks=4):
    surv = [json.loads(l) for l in open(f"{M}/phase1.jsonl") if '"survivor"' in l]
    # sample per file, deterministic
    byf = {}
    for s in surv: byf.setdefault(s["file"], []).append(s)
    todo = []
    for f, l in sorted(byf.items()):
        random.Random(7).shuffle(l)
        todo += l[:per_file]
    os.makedirs("/verif/mutants", exist_ok=True)
    res_file = "/verif/mutants/results.jsonl"
    done = set()
    if os.path.exists(res_file):
        for l in open(res_file):
            d = json.loads(l); done.add((d["file"], d["id"]))
    todo = [t for t in todo if (t["file"], t["id"]) not in done]
    print(len(surv), "survivors,", len(todo), "to run", flush=True)
    import queue, threading
    q = queue.Queue()
    for t in todo: q.put(t)
    lock = threading.Lock()
    for k in range(par):
        worktree(f"{M}/r{k}", "/repo"); worktree(f"{M}/v{k}", "/verif")
    def work(k):
        R, V = f"{M}/r{k}", f"{M}/v{k}"
        env = dict(ENV, VERIF_HOME=V, VERIF_REPO=R, VERIF_WORKERS=str(workers), VERIF_FAILFAST="1")
        while True:
            try: s = q.get_nowait()
            except queue.Empty: return
            sh("git checkout -- .", cwd=R)
            rc, out = sh(f"git apply {M}/survivors/{s['diff']}.diff", cwd=R)
            r = dict(s); r["checks"] = {}
            detected = None
            if rc != 0:
                r["error"] = "patch does not apply"
            else:
                for c in TARGETS[s["file"]][1][:maxchecks]:
                    t0 = time.time()
                    rc, out = sh(f"{V}/check {c} quick", env=env, timeout=1500)
                    cl = sorted(set(re.findall(r"clause=(\S+)", out)))
                    r["checks"][c] = dict(exit=rc, clauses=cl[:6], secs=int(time.time() - t0))
                    if rc == 1:
                        detected = c
                        break
            r["detected_by"] = detected
            sh("git checkout -- .", cwd=R)
            with lock:
                open(res_file, "a").write(json.dumps(r) + "\n")
                print(s["file"], s["id"], s["op"], "->", detected, {c: v["exit"] for c, v in r["checks"].items()}, "|", s["desc"][:70], flush=True)
    ts = [threading.Thread(target=work, args=(k,)) for k in range(par)]
    for t in ts: t.start()
    for t in ts: t.join()
    for k in range(par):
        sh(f"git -C /repo worktree remove --force {M}/r{k}"); sh(f"git -C /verif worktree remove --force {M}/v{k}")

def sample(par=2, workers=8, per_file=10, maxchecks=3):
    """flipped order for a sample: checks first (fail-fast), the repository's tests only for mutants no check reports"""
    setup_tool()
    os.makedirs("/verif/mutants", exist_ok=True)
    res_file = "/verif/mutants/sample.jsonl"
    done = set()
    if os.path.exists(res_file):
        for l in open(res_file):
            d = json.loads(l); done.add((d["file"], d["id"]))
    todo = []
    for f in TARGETS:
        rc, out = sh(f"{M}/mutate -list /repo/{f}")
        ms = [json.loads(l) for l in out.strip().split("\n") if l.startswith("{")]
        random.Random(11).shuffle(ms)
        k = per_file if len(ms) > 60 else max(3, per_file // 2)
        for m in ms[:k]:
            if (f, m["id"]) not in done:
                todo.append((f, m))
    random.Random(5).shuffle(todo)
    print(len(todo), "mutants to run", flush=True)
    import queue, threading
    q = queue.Queue()
    for t in todo: q.put(t)
    lock = threading.Lock()
    for k in range(par):
        sh(f"mkdir -p {M}/s{k}; rsync -a --delete --exclude .git /repo/ {M}/s{k}/repo/; rsync -a --delete --exclude .cache --exclude replays --exclude .git --exclude mutants /verif/ {M}/s{k}/verif/")
    def work(k):
        R, V = f"{M}/s{k}/repo", f"{M}/s{k}/verif"
        env = dict(ENV, VERIF_HOME=V, VERIF_REPO=R, VERIF_WORKERS=str(workers), VERIF_FAILFAST="1")
        while True:
            try: f, m = q.get_nowait()
            except queue.Empty: return
            sh(f"cp /repo/{f} {R}/{f}")
            rc, out = sh(f"{M}/mutate -apply {m['id']} /repo/{f} {R}/{f}")
            r = dict(file=f, **{k2: m[k2] for k2 in ("id", "line", "op", "desc", "func")})
            r["checks"] = {}
            rc, out = sh("go build ./... 2>&1", cwd=R, timeout=300)
            if rc != 0:
                r["status"] = "no-compile"
            else:
                detected = None
                for c in TARGETS[f][1][:maxchecks]:
                    t0 = time.time()
                    rc, out = sh(f"{V}/check {c} quick", env=env, timeout=1500)
                    cl = sorted(set(re.findall(r"clause=(\S+)", out)))
                    r["checks"][c] = dict(exit=rc, clauses=cl[:5], secs=int(time.time() - t0))
                    if rc == 1:
                        detected = c
                        break
                r["detected_by"] = detected
                r["status"] = "reported" if detected else "not-reported"
                if not detected:
                    pk = " ".join(TARGETS[f][0])
                    rc, out = sh(f"go test -vet=off -count=1 -timeout 170s {pk} 2>&1", cwd=R, timeout=200)
                    fails = [t for t in re.findall(r"^--- FAIL: (\S+)", out, re.M) if t != "ExampleClient"]
                    bad_pk = [l for l in out.split("\n") if l.startswith("FAIL\t") and "gomqtt/client\t" not in l]
                    hung = rc == 124 or "panic: test timed out" in out
                    r["tests"] = "fail" if (fails or bad_pk or hung) else "pass"
                    r["tests_by"] = fails[:3]
            sh(f"cp /repo/{f} {R}/{f}")
            with lock:
                open(res_file, "a").write(json.dumps(r) + "\n")
                print(f, m["id"], m["op"], r["status"], r.get("detected_by"), r.get("tests", ""), "|", m["desc"][:70], flush=True)
    ts = [threading.Thread(target=work, args=(k,)) for k in range(par)]
    for t in ts: t.start()
    for t in ts: t.join()

def followup(par=2, workers=8, more=4):
    """mutants of results.jsonl that the first checks tried did not report: try the next `more` checks mapped to the file"""
    res_file = "/verif/mutants/results.jsonl"
    rs = [json.loads(l) for l in open(res_file)]
    todo = [r for r in rs if not r.get("detected_by") and not r.get("followed_up")]
    print(len(todo), "to follow up", flush=True)
    import queue, threading
    q = queue.Queue()
    for t in todo: q.put(t)
    lock = threading.Lock()
    for k in range(par):
        worktree(f"{M}/r{k}", "/repo"); worktree(f"{M}/v{k}", "/verif")
    out_rows = {}
    def work(k):
        R, V = f"{M}/r{k}", f"{M}/v{k}"
        env = dict(ENV, VERIF_HOME=V, VERIF_REPO=R, VERIF_WORKERS=str(workers), VERIF_FAILFAST="1")
        while True:
            try: r = q.get_nowait()
            except queue.Empty: return
            sh("git checkout -- .", cwd=R)
            rc, out = sh(f"git apply {M}/survivors/{r['diff']}.diff", cwd=R)
            tried = set(r["checks"].keys())
            nxt = [c for c in TARGETS[r["file"]][1] if c not in tried][:more]
            for c in nxt:
                t0 = time.time()
                rc, out = sh(f"{V}/check {c} quick", env=env, timeout=1500)
                cl = sorted(set(re.findall(r"clause=(\S+)", out)))
                r["checks"][c] = dict(exit=rc, clauses=cl[:6], secs=int(time.time() - t0))
                if rc == 1:
                    r["detected_by"] = c
                    break
            r["followed_up"] = True
            sh("git checkout -- .", cwd=R)
            with lock:
                out_rows[(r["file"], r["id"])] = r
                print(r["file"], r["id"], r["op"], "->", r.get("detected_by"), {c: v["exit"] for c, v in r["checks"].items()}, "|", r["desc"][:70], flush=True)
    ts = [threading.Thread(target=work, args=(k,)) for k in range(par)]
    for t in ts: t.start()
    for t in ts: t.join()
    rows = [out_rows.get((r["file"], r["id"]), r) for r in rs]
    open(res_file, "w").write("".join(json.dumps(r) + "\n" for r in rows))
    for k in range(par):
        sh(f"git -C /repo worktree remove --force {M}/r{k}"); sh(f"git -C /verif worktree remove --force {M}/v{k}")

def report():
    p1 = [json.loads(l) for l in open(f"{M}/phase1.jsonl")] if os.path.exists(f"{M}/phase1.jsonl") else []
    from collections import Counter
    print("phase 1:", Counter(d["status"] for d in p1))
    rs = [json.loads(l) for l in open("/verif/mutants/results.jsonl")]
    print("phase 2:", len(rs), "survivors run;", sum(1 for r in rs if r.get("detected_by")), "reported by a check")
    byf = {}
    for r in rs:
        b = byf.setdefault(r["file"], [0, 0]); b[0] += 1; b[1] += 1 if r.get("detected_by") else 0
    for f, (n, d) in sorted(byf.items()):
        print(f"  {f:32s} {d}/{n}")
    print("not reported:")
    for r in rs:
        if not r.get("detected_by"):
            print(f"  {r['file']}:{r['line']} [{r['func']}] {r['op']}: {r['desc'][:100]}   checks={ {c: v['exit'] for c, v in r['checks'].items()} }")

if __name__ == "__main__":
    cmd = sys.argv[1]
    if cmd == "followup":
        followup(*[int(a) for a in sys.argv[2:]])
    elif cmd == "sample":
        sample(*[int(a) for a in sys.argv[2:]])
    elif cmd == "phase1":
        phase1(workers=int(sys.argv[2]) if len(sys.argv) > 2 else 6)
    elif cmd == "phase2":
        phase2(*[int(a) for a in sys.argv[2:]])
    else:
        report()

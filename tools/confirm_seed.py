#!/usr/bin/env python3
"""confirm_seed.py <property> <n> [root=/tmp/seed] [number under seeded/]  - independently confirm a seeded change produced by a sub-agent.

Takes /tmp/seed/<property>/out/<n>/{patch.diff,demo/*,notes.md}, and in a scratch worktree of /repo (HEAD):
  1. places the demonstration and runs it on the unmodified tree  -> must pass
  2. applies the patch; go build ./...                              -> must compile
  3. runs the demonstration again                                   -> must fail
  4. removes the demonstration and runs the repository's own suite -> must match the baseline
     (all packages ok except spec, transport, and client's ExampleClient)
Writes /verif/seeded/<property>-<n>/{patch.diff,demo/,notes.md,meta.json}; the scratch worktree is removed.
"""
import json, os, re, shutil, subprocess, sys, time

prop, n = sys.argv[1], sys.argv[2]
root = sys.argv[3] if len(sys.argv) > 3 else "/tmp/seed"      # round 2: /tmp/seed2
dn = sys.argv[4] if len(sys.argv) > 4 else n                    # number under /verif/seeded (round 2: n+2)
src = f"{root}/{prop}/out/{n}"
wt = f"/tmp/confirm/{prop}-{dn}"
dst = f"/verif/seeded/{prop}-{dn}"
env = dict(os.environ, GOFLAGS="-mod=mod", GOPROXY="off", GOSUMDB="off", GOTOOLCHAIN="local")

def sh(cmd, cwd=None, timeout=1500):
    p = subprocess.run(cmd, shell=True, cwd=cwd, env=env, capture_output=True, text=True, timeout=timeout)
    return p.returncode, (p.stdout + p.stderr)

os.makedirs("/tmp/confirm", exist_ok=True)
sh(f"git -C /repo worktree remove --force {wt}")
rc, out = sh(f"git -C /repo worktree add -f --detach {wt} HEAD")
assert rc == 0, out
meta = {"property": prop, "seed": f"{prop}-{dn}", "repo_head": sh("git -C /repo rev-parse --short HEAD")[1].strip(), "confirmed_at": time.strftime("%Y-%m-%dT%H:%M:%S")}
try:
    demos = []
    rel = []
    for root_, _, files in os.walk(f"{src}/demo"):
        for fn in files:
            rel.append(os.path.relpath(os.path.join(root_, fn), f"{src}/demo"))
    for f in sorted(rel):
        txt = open(f"{src}/demo/{f}", errors="replace").read()
        head = "\n".join(txt.split("\n")[:40])
        m = re.search(r"(?i)place this file at[^\n]*?:\s*\n?\s*(?://\s*)?([\w./-]+\.go)", head)
        if not m:
            m = re.search(r"(?i)place this file at[^\n]*\n(?:\s*//\s*\n)*\s*//\s*([\w./-]+\.go)", head)
        path = m.group(1) if m else None
        cm = re.search(r"(go test [^\n]+)", head)
        cmdline = cm.group(1).strip() if cm else None
        demos.append((f, path, cmdline))
    meta["demo_files"] = [{"file": f, "placed_at": p, "command": c} for f, p, c in demos]
    cmds = []
    for f, p, c in demos:
        assert p, f"no placement found in {f}"
        os.makedirs(os.path.dirname(f"{wt}/{p}"), exist_ok=True)
        shutil.copy(f"{src}/demo/{f}", f"{wt}/{p}")
        if c and c not in cmds:
            cmds.append(c)
    assert cmds, "no demo command found"
    def run_demo():
        res = []
        for c in cmds:
            rc, out = sh(c + " 2>&1", cwd=wt, timeout=900)
            res.append((rc, out[-1500:]))
        return res
    r0 = run_demo()
    meta["demo_without_patch"] = [{"rc": rc, "tail": o[-400:]} for rc, o in r0]
    ok_without = all(rc == 0 for rc, _ in r0)
    rc, out = sh(f"git apply {src}/patch.diff", cwd=wt)
    if rc != 0:
        rc, out = sh(f"git apply -3 {src}/patch.diff", cwd=wt)
    meta["patch_applies"] = rc == 0
    assert rc == 0, "patch does not apply: " + out
    rc, out = sh("go build ./... 2>&1", cwd=wt)
    meta["compiles"] = rc == 0
    r1 = run_demo()
    meta["demo_with_patch"] = [{"rc": rc, "tail": o[-600:]} for rc, o in r1]
    fails_with = any(rc != 0 for rc, _ in r1)
    for f, p, c in demos:
        os.remove(f"{wt}/{p}")
    # the repository's own suite with the change
    suite_ok = False
    for attempt in range(3):
        rc, out = sh("go test -vet=off -count=1 ./... 2>&1", cwd=wt, timeout=1500)
        pk = {}
        for line in out.split("\n"):
            m = re.match(r"^(ok|FAIL|---)\s+(\S+)", line)
            if line.startswith("ok  \t"):
                pk[line.split("\t")[1]] = "ok"
            elif line.startswith("FAIL\t"):
                pk[line.split("\t")[1]] = "FAIL"
        fails = re.findall(r"^--- FAIL: (\S+)", out, re.M)
        allowed_pk_fail = {"github.com/256dpi/gomqtt/spec", "github.com/256dpi/gomqtt/transport", "github.com/256dpi/gomqtt/client"}
        bad_pk = [p for p, s in pk.items() if s == "FAIL" and p not in allowed_pk_fail]
        bad_tests = [t for t in fails if t not in ("ExampleClient", "TestSpec", "TestSpec/PublishSubscribeQOS0")]
        meta["suite_attempts"] = attempt + 1
        meta["suite_unexpected_failures"] = {"packages": bad_pk, "tests": bad_tests}
        if not bad_pk and not bad_tests:
            suite_ok = True
            break
    meta["suite_matches_baseline"] = suite_ok
    meta["demo_passes_without"] = ok_without
    meta["demo_fails_with"] = fails_with
    meta["confirmed"] = bool(ok_without and fails_with and meta["compiles"] and suite_ok)
except Exception as e:
    meta["confirmed"] = False
    meta["error"] = str(e)
finally:
    sh(f"git -C /repo worktree remove --force {wt}")
    shutil.rmtree(wt, ignore_errors=True)
if os.path.isdir(dst):
    shutil.rmtree(dst)
os.makedirs(dst)
shutil.copy(f"{src}/patch.diff", f"{dst}/patch.diff")
shutil.copytree(f"{src}/demo", f"{dst}/demo")
if os.path.exists(f"{src}/notes.md"):
    shutil.copy(f"{src}/notes.md", f"{dst}/notes.md")
json.dump(meta, open(f"{dst}/meta.json", "w"), indent=1)
print(prop, n, "confirmed" if meta.get("confirmed") else "NOT CONFIRMED", meta.get("error", ""), meta.get("suite_unexpected_failures", ""))

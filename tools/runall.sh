#!/bin/bash
# usage: runall.sh [quick|thorough] [ids...] - run every registered check, print one summary line per check
T=${1:-quick}; shift
IDS=${@:-$(python3 -c "import json;print(' '.join(c['property_id'] for c in json.load(open('/verif/MANIFEST.json'))['checks']))")}
for id in $IDS; do
  s=$(date +%s)
  /verif/check $id $T > /tmp/runall.$id.log 2>&1; rc=$?
  e=$(date +%s)
  echo "$id rc=$rc $((e-s))s $(grep -c '^VIOLATION' /tmp/runall.$id.log) violations, $(grep -c '^KNOWN-FINDING' /tmp/runall.$id.log) known | $(tail -1 /tmp/runall.$id.log | cut -c1-140)"
done

#!/usr/bin/env python3
"""seedmatrix.py [ids...] - run every confirmed seeded change in /verif/seeded against the check of its property
(quick tier), record in its meta.json which clauses reported it, and print a table."""
import json, os, re, subprocess, sys, glob
# works on copies so that /repo and /verif stay usable meanwhile: a worktree of /repo's HEAD and one of /verif's HEAD
MR, MV = '/tmp/mx/repo', '/tmp/mx/verif'
subprocess.run(f"mkdir -p /tmp/mx; git -C /repo worktree remove --force {MR}; git -C /repo worktree add -f --detach {MR} HEAD; git -C /verif worktree remove --force {MV}; git -C /verif worktree add -f --detach {MV} HEAD", shell=True, capture_output=True)
ENV = dict(os.environ, VERIF_HOME=MV, VERIF_REPO=MR, VERIF_FAILFAST='1', VERIF_WORKERS=os.environ.get('VERIF_WORKERS', '8'))
ONLY_MISSING = os.environ.get('ONLY_MISSING') == '1'
want = sys.argv[1:]
rows = []
for d in sorted(glob.glob('/verif/seeded/*/')):
    name = os.path.basename(d.rstrip('/'))
    prop = name.split('-')[0]
    if want and prop not in want and name not in want:
        continue
    meta = json.load(open(d + 'meta.json'))
    if ONLY_MISSING and any(v.get('exit') == 1 for v in meta.get('detected_by', {}).values()):
        continue
    patch = d + ('patch.rebased.diff' if os.path.exists(d + 'patch.rebased.diff') else 'patch.diff')
    chk = meta.get('checks', [prop])
    res = {}
    for c in chk:
        ok = subprocess.run(f"git -C {MR} apply --check {patch} 2>/dev/null || git -C {MR} apply -3 --check {patch}", shell=True, capture_output=True).returncode == 0
        if not ok:
            res[c] = {'applies': False}
            continue
        subprocess.run(f"git -C {MR} apply {patch} 2>/dev/null || git -C {MR} apply -3 {patch}", shell=True, capture_output=True)
        p = subprocess.run(f"{MV}/check {c} quick", shell=True, capture_output=True, text=True, errors='replace', env=ENV)
        subprocess.run(f"git -C {MR} reset -q; git -C {MR} checkout -- .", shell=True)
        clauses = sorted(set(re.findall(r"clause=(\S+)", p.stdout)))
        res[c] = {'applies': True, 'exit': p.returncode, 'violations': len(re.findall(r"^VIOLATION", p.stdout, re.M)), 'clauses': clauses, 'exhaustive': 'exhaustive=true' in p.stdout}
        if p.returncode == 1:
            break
    meta['detected_by'] = res
    json.dump(meta, open(d + 'meta.json', 'w'), indent=1)
    rows.append((name, res))
    print(name, json.dumps(res), flush=True)

subprocess.run(f"git -C /repo worktree remove --force {MR}; git -C /verif worktree remove --force {MV}", shell=True, capture_output=True)

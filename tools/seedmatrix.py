#!/usr/bin/env python3
"""seedmatrix.py [ids...] - run every confirmed seeded change in /verif/seeded against the check of its property
(quick tier), record in its meta.json which clauses reported it, and print a table."""
import json, os, re, subprocess, sys, glob
want = sys.argv[1:]
rows = []
for d in sorted(glob.glob('/verif/seeded/*/')):
    name = os.path.basename(d.rstrip('/'))
    prop = name.split('-')[0]
    if want and prop not in want and name not in want:
        continue
    meta = json.load(open(d + 'meta.json'))
    patch = d + ('patch.rebased.diff' if os.path.exists(d + 'patch.rebased.diff') else 'patch.diff')
    chk = meta.get('checks', [prop])
    res = {}
    for c in chk:
        ok = subprocess.run(f"git -C /repo apply --check {patch} 2>/dev/null || git -C /repo apply -3 --check {patch}", shell=True, capture_output=True).returncode == 0
        if not ok:
            res[c] = {'applies': False}
            continue
        subprocess.run(f"git -C /repo apply {patch} 2>/dev/null || git -C /repo apply -3 {patch}", shell=True, capture_output=True)
        p = subprocess.run(f"/verif/check {c} quick", shell=True, capture_output=True, text=True, errors='replace')
        subprocess.run("git -C /repo checkout -- . ; git -C /repo reset -q", shell=True)
        clauses = sorted(set(re.findall(r"clause=(\S+)", p.stdout)))
        res[c] = {'applies': True, 'exit': p.returncode, 'violations': len(re.findall(r"^VIOLATION", p.stdout, re.M)), 'clauses': clauses}
    meta['detected_by'] = res
    json.dump(meta, open(d + 'meta.json', 'w'), indent=1)
    rows.append((name, res))
    print(name, json.dumps(res), flush=True)

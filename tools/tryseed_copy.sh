#!/bin/bash
# usage: tryseed_copy.sh <patch> <ID> [tier] [slot] - like tryseed.sh, but on copies of the working trees of /repo and /verif
# (/tmp/ts<slot>/{repo,verif}), so that /repo stays untouched (other background jobs read it) and /verif/evidence is not overwritten.
P=$(readlink -f $1); ID=$2; T=${3:-quick}; S=/tmp/ts${4:-0}
[ -f "$(dirname $P)/patch.rebased.diff" ] && P=$(dirname $P)/patch.rebased.diff
mkdir -p $S
rsync -a --delete --exclude .git /repo/ $S/repo/
rsync -a --delete --exclude .cache --exclude replays --exclude .git /verif/ $S/verif/
( cd $S/repo && git apply $P 2>/dev/null || patch -p1 -s < $P ) || { echo "PATCH DOES NOT APPLY: $P"; exit 3; }
VERIF_HOME=$S/verif VERIF_REPO=$S/repo $S/verif/check $ID $T; rc=$?
echo "exit=$rc"

#!/usr/bin/env python3
"""Regenerates /verif/MANIFEST.json from the table below (run after adding a check)."""
import json, subprocess
CHECKS = {
 "C15": dict(level="model_checking",
   text="Schedule exploration of the real broker: (live) 2 autonomous publishers x 2-3 numbered messages over QoS patterns 000/111/222/121/202, 2 autonomous acknowledging subscribers with granted QoS 2 and 1, windows 1-2, every schedule within delay bound 1 (thorough 2-3): per (publisher, published QoS, received QoS) sequence numbers never decrease, everything arrives; (resume) a subscriber cut with 2..window(+PUBREC'd) QoS 1/2 messages unacknowledged resumes its session: retransmitted PUBLISH(dup)/PUBREL packets must come in the order of their original transmission, for every schedule AND every iteration order of the maps inside the code (owned choice) within bound 2 (thorough 3-4). The client library's callback order and the service's command order are covered by the client harness parts of this check.",
   note="Trusted: rewriter (map ranges become explorer-owned iteration orders) + scheduler shims, codec pipe. Participants bounded to 2+2, windows 1-4.",
   technique="deviation-bounded exhaustive schedule and map-order exploration of the implementation under a controlled scheduler", design="5 (C15)"),
 "C13": dict(level="model_checking",
   text="Schedule exploration of the real broker: 2 (and 3) newcomers CONNECT concurrently with the incumbent's client id, all clean/unclean mixes, incumbent idle / with an open outbound handshake and a queued message behind a window of 1 / dying by EOF at the same moment / sending DISCONNECT at the same moment, a helper publishing towards the id at the same time; every schedule of the race phase within delay bound 2 (3 newcomers: 1; thorough 3 / 2). Instant clause at every accepting CONNACK (every client of the id set up earlier is terminated), at quiescence: exactly one survivor, nobody blocked in Setup, lifecycle clauses, each displaced accepted client's will exactly once and before its Terminate, and for unclean chains the queued / in-flight / concurrently published messages all reach the survivor, none offered twice as new.",
   note="Trusted: rewriter + scheduler shims (select with several ready cases is an owned choice), codec pipe, recording backend. Set-up and epilogue run on the default schedule (vrt.Quiet); only the race phase is explored. Kill timeout never fires.",
   technique="deviation-bounded exhaustive schedule exploration of the implementation under a controlled scheduler", design="5 (C13)"),
 "C14": dict(level="model_checking",
   text="(a) History exploration: every sequence of 2 (thorough 3) hostile events over 39 packets/frames (all 14 types with boundary ids, empty / wildcard / NUL / 64 KiB topics and filters, 64 KiB payload, 7 malformed frames, abrupt close), reconnect, and a backend hook failing at each of 8 call sites, started cold or after a valid CONNECT; (b) every sequence of 5 (thorough 7) events of a misbehaving consumer of the witnesses' own traffic; after EVERY event two witnesses exchange a QoS 1 marker which must arrive exactly once with both still connected; (c) schedule exploration: MemoryBackend.Close / Engine.Close racing with 1-2 CONNECTs, and a 3-peer connect/publish/disconnect storm with a shared client id, all schedules within delay bound 2-3. Oracles: no captured panic, no witness disturbed, threads of ended connections gone, Terminate exactly once per successful Setup, closed signal fired, no backend hook stuck.",
   note="Trusted: rewriter + scheduler shims, codec pipe, recording backend. Hostile inputs are a finite catalogue, not all byte streams (byte-level totality of the decoder is C02).",
   technique="bounded-exhaustive hostile-input history exploration + deviation-bounded schedule exploration of shutdown races, implementation under a controlled scheduler", design="5 (C14)"),
 "C12": dict(level="model_checking",
   text="Exhaustive cross product, each combination explored on a fresh real broker under the controlled scheduler: 24 termination causes (DISCONNECT, drop, read error, malformed / oversized frame, second CONNECT, server-only packet, keep-alive expiry, clean/unclean takeover, backend close, engine close, send failure, token timeout, DISCONNECT followed by a drop, malformed frame followed by DISCONNECT, and 8 pre-acceptance causes incl. rejected credentials, refusing Setup, failing CONNACK write) x 6 protocol states (idle, inbound QoS 1/2 handshake open, outbound handshake open, blocked on a publish token, observer queue full) x will QoS x retain x keep-alive value; the will's Publish calls are counted at the backend and compared with 'accepted and no DISCONNECT read', content compared, online / offline-persistent / late observers checked, the requested read timeout compared with 1.5 x effective keep-alive; second pass with 1 (thorough 2) scheduling deviations placed everywhere inside each combination.",
   note="Trusted: rewriter + scheduler shims, codec pipe, recording backend. 'Accepted' = authentication succeeded and Setup returned a session. Timers >= 100 ms fire only as events.",
   technique="exhaustive enumeration of fault causes x protocol states, implementation under a controlled scheduler with deviation-bounded schedule exploration", design="5 (C12)"),
 "C08": dict(level="model_checking",
   text="History exploration of the real broker's outbound side: one persistent subscriber that controls its acknowledgements (PUBACK / PUBREC / PUBCOMP, in or out of order), a helper publishing at QoS 0/1/2 while it is on- or offline, windows 1-2 (thorough 3), connection loss by peer drop, broker write failing before/after the transfer, broker read failing, clean and unclean reconnects, optional QoS 0 bystander subscriber; all histories to depth 6 (thorough 8-9), each followed by a reconnect-and-acknowledge-everything epilogue; instant clause at every PUBLISH write (recorded first), store clause at every quiescence, retransmission-set / DUP / session-present clauses at every resume, nothing-lost clause at the end.",
   note="Trusted: rewriter + scheduler shims, codec pipe, recording backend, subscriber model in mc/h/subhist. Queue capacity exceeds the depth (capacity drops are out of scope). Acks are sent at quiescence.",
   technique="bounded-exhaustive environment-history exploration with fault injection at every packet, implementation under a controlled scheduler", design="5 (C08)"),
 "C16": dict(level="model_checking",
   text="Same history space as C08 (windows 1-3, mixed QoS, all acknowledgement patterns incl. out-of-order and reconnects in between) with the window clauses: unacknowledged QoS>0 packets at the subscriber (retransmitted PUBLISH and PUBREL included) never exceed the window at any write; inductive token-conservation invariant at every quiescent state (free dequeue tokens + outgoing store + dequeuer-held token = window, read by reflection); progress epilogue: acknowledging everything delivers every queued message.",
   note="Trusted: as C08; the token invariant reads the unexported dequeueTokens channel and is skipped (and reported) if the field does not exist. 'QoS 0 does not occupy slots' is checked through token conservation, not by demanding delivery while the window is full.",
   technique="bounded-exhaustive environment-history exploration with an inductive state invariant over reachable quiescent states", design="5 (C16)"),
 "C06": dict(level="model_checking",
   text="History exploration of the real broker with scripted clients: (a) every sequence of 2 (thorough 3) events over an 80-event alphabet on one subscriber's table (single- and multi-filter SUBSCRIBE with different QoS, UNSUBSCRIBE, unclean reconnect) with 12 probe publishes (4 topics x 3 QoS) after each event; (b) every sequence of 4 (thorough 5) subscribe/unsubscribe/publish/reconnect events by 2 (thorough 3) clients incl. self-delivery; (c) the same with one scheduling deviation inside each step. After every event every inbox is compared with a reference model (multiset, retain flag, QoS within the capped set, SUBACK codes).",
   note="Trusted: rewriter + scheduler shims, codec pipe, scripted clients, ref.Matches, the 60-line subscription/retained model in mc/h/pubsub. Clients acknowledge at once (no back-pressure); order within an inbox is not compared.",
   technique="bounded-exhaustive environment-history exploration of the implementation under a controlled scheduler, reference-model oracle", design="5 (C06)"),
 "C11": dict(level="model_checking",
   text="History exploration of the real broker: every sequence of 3 (thorough 4) events over retained / non-retained / empty publishes on 3 topics at all QoS, dying clients with retained and non-retained wills, subscriptions by an online subscriber and an unclean reconnect of a persistent one; after EVERY event a probe client subscribes in turn to each of 25 filters (levels {a,b,+} to depth 2, with/without '#') and the retained replay (topics, payloads, retain flag set, capped QoS) is compared with a reference retained map, as are all live deliveries (retain flag clear).",
   note="Trusted: as C06. Offline persistent subscribers are exercised by the reconnect event only; queueing while offline is C08's subject.",
   technique="bounded-exhaustive environment-history exploration of the implementation under a controlled scheduler, reference-model oracle", design="5 (C11)"),
 "C20": dict(level="model_checking",
   text="History exploration of the real broker: every sequence of 2-3 (thorough 4) packets over 23 packet instances covering all 14 types, ids 1/7/65535, 1-4 (thorough 8) filters, good and bad credentials, sent cold or after a valid CONNECT, step-by-step or pipelined, plus one or two scheduling deviations inside the pipelined sequences; replies are compared with a reference transducer per request, backend hooks and a '#' witness show what was acted upon.",
   note="Trusted: rewriter + scheduler shims, codec pipe, recording backend, the 40-line reference transducer in mc/h/c20. Filters of the connection under test are disjoint from its publish topics.",
   technique="bounded-exhaustive input-sequence exploration of the implementation under a controlled scheduler, reference transducer oracle", design="5 (C20)"),
 "C07": dict(level="model_checking",
   text="History exploration of the real broker (engine, client goroutines, MemoryBackend, tomb) under a controlled scheduler: every sequence up to depth 7-8 (thorough 8-9) of publisher and fault events {connect, PUBLISH new/dup, PUBREL known/unknown, drop, broker write failing before/after, broker read failing, backend ack released late / from another thread} for 1-2 packet ids, the broker running to exact quiescence between events; extra pass with one or two scheduling deviations inside every step. Oracles at the instant of each broker write and at each quiescence.",
   note="Trusted: rewriter + scheduler shims, codec pipe (real Encode/Decode, FIN semantics), recording backend wrapper. Publisher model is protocol-conformant. Timers >= 100 ms (token/kill timeouts) never fire by themselves.",
   technique="bounded-exhaustive environment-history exploration of the implementation (crash/fault points as events) under a controlled scheduler", design="5 (C07)"),
 "C04": dict(level="exploration",
   text="Complete sweep of a finite catalogue: every (filter, name) pair over levels {a,b,empty,+} / '#' up to depth 4 in both directions (Match over stored filters, Search over stored names), every two-entry tree (distinct and equal values) over depth-3 entries, three-entry trees (thorough), plus a structured long/multi-byte family, each compared with an independent 15-line reference matcher. Exhaustive enumeration of inputs; there is no state space, hence 'exploration' with exhaustive:true.",
   note="Trusted: ref.Matches (written from MQTT 3.1.1 section 4.7). Longer random inputs of the quantifier are replaced by the stated finite universes.",
   technique="bounded-exhaustive input enumeration against a reference matcher", design="4 (C04)"),
 "C05": dict(level="model_checking",
   text="Explicit-state closure: all 3125 reachable implementation states of the tree over 5 topics x 2 values (two universes: stored filters, stored names), every query compared with a map model in every state, structure compared with a fresh tree of equal contents (no trace of history), results of the predecessor state re-read after each operation (snapshots). Concurrency: all 12.5k programs of 2-3 threads over a conflict-forced 12-operation alphabet, every interleaving and map order up to the deviation bound under the controlled scheduler, brute-force linearizability against the map model.",
   note="Trusted: rewriter + scheduler shims; map model in mc/h/c05; RWMutex modelled without writer preference; data races in the memory-model sense are not visible to a cooperative scheduler (the aliasing hazard is caught by the snapshot clause instead).",
   technique="explicit-state closure + exhaustive interleaving exploration with linearizability oracle", design="4 (C05)"),
 "C18": dict(level="model_checking",
   text="Explicit-state closure over all 65536 counter states and over every reachable MemorySession store state of a small packet universe (fixpoint, map model compared in every state), plus every interleaving of all 2-3 thread programs over the counter and store alphabets under a controlled scheduler with a brute-force linearizability oracle. Exhaustive within those bounds; the right level because the state spaces are finite and small.",
   note="Trusted: the source rewriter and scheduler shims (mc/vrt, vch, vsync), the map/cycle reference models in mc/h/c18. Lock acquisitions are the only scheduling points; unsynchronised accesses are not seen by this check.",
   technique="explicit-state closure + exhaustive interleaving exploration (controlled scheduler) with linearizability oracle", design="4 (C18)"),
}
ALL = ["C%02d" % i for i in range(1, 21)]
NA_REASON = "check not built yet (work in progress; DESIGN.md section 10 gives the order of work) - not out of reach of the technique"
m = {
 "version": 1,
 "setup_cmd": "cd /verif && ./check --build",
 "hooks": {"guard": "verif", "enable": "no guarded source exists in /repo: /verif/check rewrites the repository sources onto the controlled scheduler (mc/cmd/rewrite) and compiles them with `go build -overlay` at check time",
           "baseline_off_cmd": "cd /repo && GOFLAGS=-mod=mod GOPROXY=off GOSUMDB=off GOTOOLCHAIN=local go test -vet=off -count=1 ./...",
           "source_commits": [], "add_only": True},
 "engines": [{"name": "mc", "path": "/verif/mc", "serves_properties": sorted(CHECKS), "kind_free_text": "hand-written stateless model checker for Go: AST rewriter moving sync/chan/select/go/time/map-iteration onto a controlled cooperative scheduler, deviation-bounded DFS over choice sequences sharded over 16 worker processes, history (environment-event) exploration, explicit-state closure search; oracles are Go reference models"}],
 "checks": [],
 "not_applicable": [],
 "notes": "Every check: /verif/check <id> quick|thorough; replay: /verif/check --replay <file>. Known findings: /verif/known_findings.jsonl.",
}
for cid in ALL:
    if cid in CHECKS:
        c = CHECKS[cid]
        m["checks"].append({"property_id": cid, "quick_cmd": "/verif/check %s quick" % cid, "thorough_cmd": "/verif/check %s thorough" % cid,
          "evidence_file": "/verif/evidence/%s.json" % cid, "replay_cmd_template": "/verif/check --replay {path}", "engine": "mc",
          "level_claimed": {"category": c["level"], "text": c["text"], "design_ref": c["design"]}, "level_note": c["note"], "technique": c["technique"]})
    else:
        m["not_applicable"].append({"property_id": cid, "reason": NA_REASON})
json.dump(m, open("/verif/MANIFEST.json", "w"), indent=1)
print("checks:", len(m["checks"]), "not_applicable:", len(m["not_applicable"]))

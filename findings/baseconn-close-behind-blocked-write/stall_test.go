package stalldemo

import (
	"testing"
	"time"

	"github.com/256dpi/gomqtt/broker"
	"github.com/256dpi/gomqtt/packet"
	"github.com/256dpi/gomqtt/transport"
)

func dial(t *testing.T, addr string) transport.Conn {
	c, err := transport.Dial("tcp://" + addr)
	if err != nil {
		t.Fatal(err)
	}
	return c
}

func connect(t *testing.T, c transport.Conn, id string) {
	p := packet.NewConnect()
	p.ClientID = id
	p.CleanSession = true
	if err := c.Send(p, false); err != nil {
		t.Fatal(err)
	}
}

func recvWithin(c transport.Conn, d time.Duration) (packet.Generic, error, bool) {
	type r struct {
		p packet.Generic
		e error
	}
	ch := make(chan r, 1)
	go func() { p, e := c.Receive(); ch <- r{p, e} }()
	select {
	case x := <-ch:
		return x.p, x.e, true
	case <-time.After(d):
		return nil, nil, false
	}
}

func TestTakeoverOfNonReadingClientStallsBroker(t *testing.T) {
	srv, err := transport.Launch("tcp://127.0.0.1:0")
	if err != nil {
		t.Fatal(err)
	}
	be := broker.NewMemoryBackend()
	eng := broker.NewEngine(be)
	eng.Accept(srv)
	addr := srv.Addr().String()

	// the client that will stop reading
	a := dial(t, addr)
	connect(t, a, "a")
	if _, err, ok := recvWithin(a, 2*time.Second); !ok || err != nil {
		t.Fatal("no connack", err)
	}
	sub := packet.NewSubscribe()
	sub.ID = 1
	sub.Subscriptions = []packet.Subscription{{Topic: "flood", QOS: 0}}
	a.Send(sub, false)
	recvWithin(a, 2*time.Second)
	// from now on "a" does not read any more
	defer a.Close()

	// a publisher floods the topic until the broker's write towards "a" blocks
	p := dial(t, addr)
	connect(t, p, "p")
	recvWithin(p, 2*time.Second)
	sent := 0
	defer func() { t.Logf("publisher sent %d", sent) }()
	be.Logger = func(e broker.LogEvent, c *broker.Client, pkt packet.Generic, msg *packet.Message, err error) {
		if err != nil || e == broker.LostConnection || e == broker.NewConnection {
			if err != nil { println(string(e), c.ID(), err.Error()) } else { println(string(e), c.ID()) }
		}
	}
	go func() {
		for i := 0; i < 30; i++ {
			sent = i
			m := packet.NewPublish()
			m.Message = packet.Message{Topic: "flood", Payload: make([]byte, 1000000)}
			if p.Send(m, false) != nil {
				return
			}
		}
	}()
	time.Sleep(2 * time.Second)

	// a witness on an unrelated topic works at this point
	w := dial(t, addr)
	connect(t, w, "w")
	if _, _, ok := recvWithin(w, 2*time.Second); !ok {
		t.Fatal("witness not accepted before the takeover")
	}

	// the hung client is restarted: a new connection with the same id
	a2 := dial(t, addr)
	connect(t, a2, "a")
	_, err2, ok := recvWithin(a2, 8*time.Second)
	t.Logf("newcomer: answered=%v err=%v", ok, err2)

	// the witness publishes QoS 1 on an unrelated topic and expects its PUBACK
	m := packet.NewPublish()
	m.ID = 7
	m.Message = packet.Message{Topic: "other", Payload: []byte("x"), QOS: 1}
	w.Send(m, false)
	_, _, okw := recvWithin(w, 3*time.Second)
	if !ok {
		t.Errorf("the newcomer with client id a got no answer within 8 s")
	}
	if !okw {
		t.Errorf("an unrelated client got no PUBACK within 3 s: the whole backend is stalled")
	}
}

// Package ref holds the reference models (written from the MQTT 3.1.1 text,
// independent of the library's code) that the oracles compare against.
package ref

import "strings"

// Matches decides MQTT 3.1.1 section 4.7 matching of a topic filter against a
// topic name: '+' stands for exactly one level, a trailing '#' for zero or
// more levels including the parent level, levels may be empty, comparison is
// byte-exact. Name levels are compared literally.
func Matches(filter, name string) bool {
	f := strings.Split(filter, "/")
	n := strings.Split(name, "/")
	for i, fl := range f {
		if fl == "#" && i == len(f)-1 {
			// matches the parent level (i == len(n)) and anything below
			return len(n) >= i
		}
		if i >= len(n) {
			return false
		}
		if fl == "+" {
			continue
		}
		if fl != n[i] {
			return false
		}
	}
	return len(f) == len(n)
}

// HasWildcard reports whether a topic contains a wildcard level.
func HasWildcard(t string) bool {
	for _, l := range strings.Split(t, "/") {
		if l == "+" || l == "#" {
			return true
		}
	}
	return false
}

package ref

import (
	"errors"
	"fmt"
)

// Reference MQTT 3.1.1 codec, written from the OASIS text (sections 2 and 3)
// and independent of the library under test. It works on a neutral packet
// value (Pkt) so that it shares no type with the library.
//
// Leniencies of Decode (the library documents none, they are fixed here; each
// one is accept-more, memory-safe, local and keeps messages forwardable):
//   L1 protocol 3.1 ("MQIsdp", level 3) is accepted besides 3.1.1 ("MQTT", level 4)
//   L2 strings are not checked for UTF-8 well-formedness, U+0000 or wildcard characters
//   L3 non-minimal encodings of the remaining length are accepted (at most 4 bytes)
//   L4 DUP set on a QoS 0 PUBLISH is accepted
//   L5 bytes inside the declared remaining length after the last field of CONNECT and CONNACK are ignored
//   L6 empty topic filters in SUBSCRIBE / UNSUBSCRIBE are accepted
//   L7 a zero-length client id with clean session is accepted (3.1.1 allows it); the 23-byte limit of 3.1 is not enforced
// Everything else the specification declares malformed is rejected.

const (
	CONNECT     = 1
	CONNACK     = 2
	PUBLISH     = 3
	PUBACK      = 4
	PUBREC      = 5
	PUBREL      = 6
	PUBCOMP     = 7
	SUBSCRIBE   = 8
	SUBACK      = 9
	UNSUBSCRIBE = 10
	UNSUBACK    = 11
	PINGREQ     = 12
	PINGRESP    = 13
	DISCONNECT  = 14
)

type Msg struct {
	Topic   string
	Payload []byte
	QOS     byte
	Retain  bool
}

type Sub struct {
	Topic string
	QOS   byte
}

// Pkt is a neutral MQTT control packet value.
type Pkt struct {
	Type byte
	// CONNECT
	Version      byte // 3 or 4
	ClientID     string
	KeepAlive    uint16
	Clean        bool
	Will         *Msg
	HasUser      bool
	User         string
	HasPass      bool
	Pass         string
	// CONNACK
	SessionPresent bool
	ReturnCode     byte
	// PUBLISH
	Dup bool
	Msg Msg
	// packets with an identifier
	ID uint16
	// SUBSCRIBE / SUBACK / UNSUBSCRIBE
	Subs   []Sub
	Codes  []byte
	Topics []string
}

var ErrMalformed = errors.New("ref: malformed packet")

func mal(format string, a ...interface{}) error {
	return fmt.Errorf("%w: %s", ErrMalformed, fmt.Sprintf(format, a...))
}

/* ---------- encoding ---------- */

func putStr(b []byte, s string) []byte {
	b = append(b, byte(len(s)>>8), byte(len(s)))
	return append(b, s...)
}

func putBytes(b []byte, s []byte) []byte {
	b = append(b, byte(len(s)>>8), byte(len(s)))
	return append(b, s...)
}

func varint(n int) []byte {
	var out []byte
	for {
		d := byte(n % 128)
		n /= 128
		if n > 0 {
			d |= 0x80
		}
		out = append(out, d)
		if n == 0 {
			return out
		}
	}
}

// Encode produces the byte layout section 3 mandates. The packet must be well-formed.
func Encode(p *Pkt) ([]byte, error) {
	var body []byte
	flags := byte(0)
	switch p.Type {
	case CONNECT:
		if p.Version == 3 {
			body = putStr(body, "MQIsdp")
		} else {
			body = putStr(body, "MQTT")
		}
		body = append(body, p.Version)
		var cf byte
		if p.HasUser {
			cf |= 0x80
		}
		if p.HasPass {
			cf |= 0x40
		}
		if p.Will != nil {
			cf |= 0x04 | p.Will.QOS<<3
			if p.Will.Retain {
				cf |= 0x20
			}
		}
		if p.Clean {
			cf |= 0x02
		}
		body = append(body, cf, byte(p.KeepAlive>>8), byte(p.KeepAlive))
		body = putStr(body, p.ClientID)
		if p.Will != nil {
			body = putStr(body, p.Will.Topic)
			body = putBytes(body, p.Will.Payload)
		}
		if p.HasUser {
			body = putStr(body, p.User)
		}
		if p.HasPass {
			body = putStr(body, p.Pass)
		}
	case CONNACK:
		sp := byte(0)
		if p.SessionPresent {
			sp = 1
		}
		body = []byte{sp, p.ReturnCode}
	case PUBLISH:
		if p.Dup {
			flags |= 0x08
		}
		flags |= p.Msg.QOS << 1
		if p.Msg.Retain {
			flags |= 0x01
		}
		body = putStr(body, p.Msg.Topic)
		if p.Msg.QOS > 0 {
			body = append(body, byte(p.ID>>8), byte(p.ID))
		}
		body = append(body, p.Msg.Payload...)
	case PUBACK, PUBREC, PUBCOMP, UNSUBACK:
		body = []byte{byte(p.ID >> 8), byte(p.ID)}
	case PUBREL:
		flags = 0x02
		body = []byte{byte(p.ID >> 8), byte(p.ID)}
	case SUBSCRIBE:
		flags = 0x02
		body = []byte{byte(p.ID >> 8), byte(p.ID)}
		for _, s := range p.Subs {
			body = putStr(body, s.Topic)
			body = append(body, s.QOS)
		}
	case SUBACK:
		body = []byte{byte(p.ID >> 8), byte(p.ID)}
		body = append(body, p.Codes...)
	case UNSUBSCRIBE:
		flags = 0x02
		body = []byte{byte(p.ID >> 8), byte(p.ID)}
		for _, t := range p.Topics {
			body = putStr(body, t)
		}
	case PINGREQ, PINGRESP, DISCONNECT:
	default:
		return nil, mal("unknown type %d", p.Type)
	}
	if len(body) > 268435455 {
		return nil, mal("remaining length too large")
	}
	out := append([]byte{p.Type<<4 | flags}, varint(len(body))...)
	return append(out, body...), nil
}

/* ---------- decoding ---------- */

// Header parses the fixed header: type, flags, remaining length and the number of header bytes.
// ok=false if the bytes do not hold a complete fixed header (or the length encoding exceeds 4 bytes).
func Header(b []byte) (typ, flags byte, rl, hl int, ok bool) {
	if len(b) < 2 {
		return 0, 0, 0, 0, false
	}
	typ, flags = b[0]>>4, b[0]&0x0f
	mult := 1
	for i := 1; i <= 4; i++ {
		if i >= len(b) {
			return 0, 0, 0, 0, false
		}
		rl += int(b[i]&0x7f) * mult
		mult *= 128
		if b[i]&0x80 == 0 {
			return typ, flags, rl, i + 1, true
		}
	}
	return 0, 0, 0, 0, false
}

type rd struct {
	b   []byte
	pos int
}

func (r *rd) left() int { return len(r.b) - r.pos }

func (r *rd) u8() (byte, error) {
	if r.left() < 1 {
		return 0, mal("truncated")
	}
	v := r.b[r.pos]
	r.pos++
	return v, nil
}

func (r *rd) u16() (uint16, error) {
	if r.left() < 2 {
		return 0, mal("truncated")
	}
	v := uint16(r.b[r.pos])<<8 | uint16(r.b[r.pos+1])
	r.pos += 2
	return v, nil
}

func (r *rd) bin() ([]byte, error) {
	n, err := r.u16()
	if err != nil {
		return nil, err
	}
	if r.left() < int(n) {
		return nil, mal("string longer than the packet")
	}
	v := append([]byte{}, r.b[r.pos:r.pos+int(n)]...)
	r.pos += int(n)
	return v, nil
}

func (r *rd) str() (string, error) {
	b, err := r.bin()
	return string(b), err
}

// Decode decodes one packet of the expected type from b. Only the packet's own extent (fixed header + remaining length)
// is looked at; n is that extent. It fails if b holds less than the extent.
func Decode(b []byte, want byte) (p *Pkt, n int, err error) {
	typ, flags, rl, hl, ok := Header(b)
	if !ok {
		return nil, 0, mal("incomplete or over-long fixed header")
	}
	if typ != want {
		return nil, 0, mal("type %d, expected %d", typ, want)
	}
	if len(b) < hl+rl {
		return nil, 0, mal("remaining length %d exceeds the data", rl)
	}
	n = hl + rl
	r := &rd{b: b[hl:n]}
	p = &Pkt{Type: typ}
	wantFlags := byte(0)
	switch typ {
	case PUBREL, SUBSCRIBE, UNSUBSCRIBE:
		wantFlags = 2
	}
	if typ != PUBLISH && flags != wantFlags {
		return nil, 0, mal("reserved flags %d", flags)
	}
	switch typ {
	case CONNECT:
		name, err := r.str()
		if err != nil {
			return nil, 0, err
		}
		if p.Version, err = r.u8(); err != nil {
			return nil, 0, err
		}
		if !(p.Version == 4 && name == "MQTT") && !(p.Version == 3 && name == "MQIsdp") {
			return nil, 0, mal("protocol %q level %d", name, p.Version)
		}
		cf, err := r.u8()
		if err != nil {
			return nil, 0, err
		}
		if cf&1 != 0 {
			return nil, 0, mal("reserved connect flag set")
		}
		p.Clean = cf&2 != 0
		willFlag, willQ, willR := cf&4 != 0, cf>>3&3, cf&0x20 != 0
		p.HasPass, p.HasUser = cf&0x40 != 0, cf&0x80 != 0
		if willQ == 3 {
			return nil, 0, mal("will qos 3")
		}
		if !willFlag && (willQ != 0 || willR) {
			return nil, 0, mal("will qos/retain without will flag")
		}
		if p.HasPass && !p.HasUser {
			return nil, 0, mal("password without user name")
		}
		if p.KeepAlive, err = r.u16(); err != nil {
			return nil, 0, err
		}
		if p.ClientID, err = r.str(); err != nil {
			return nil, 0, err
		}
		if p.ClientID == "" && !p.Clean {
			return nil, 0, mal("empty client id without clean session")
		}
		if willFlag {
			p.Will = &Msg{QOS: willQ, Retain: willR}
			if p.Will.Topic, err = r.str(); err != nil {
				return nil, 0, err
			}
			if p.Will.Topic == "" {
				return nil, 0, mal("empty will topic")
			}
			if p.Will.Payload, err = r.bin(); err != nil {
				return nil, 0, err
			}
		}
		if p.HasUser {
			if p.User, err = r.str(); err != nil {
				return nil, 0, err
			}
		}
		if p.HasPass {
			if p.Pass, err = r.str(); err != nil {
				return nil, 0, err
			}
		}
		// L5: trailing bytes inside the remaining length are ignored
	case CONNACK:
		a, err := r.u8()
		if err != nil {
			return nil, 0, err
		}
		if a&0xfe != 0 {
			return nil, 0, mal("reserved connack flags %d", a)
		}
		p.SessionPresent = a&1 != 0
		if p.ReturnCode, err = r.u8(); err != nil {
			return nil, 0, err
		}
		if p.ReturnCode > 5 {
			return nil, 0, mal("connack return code %d", p.ReturnCode)
		}
	case PUBLISH:
		p.Dup, p.Msg.QOS, p.Msg.Retain = flags&8 != 0, flags>>1&3, flags&1 != 0
		if p.Msg.QOS == 3 {
			return nil, 0, mal("publish qos 3")
		}
		if p.Msg.Topic, err = r.str(); err != nil {
			return nil, 0, err
		}
		if p.Msg.Topic == "" {
			return nil, 0, mal("empty topic name")
		}
		if p.Msg.QOS > 0 {
			if p.ID, err = r.u16(); err != nil {
				return nil, 0, err
			}
			if p.ID == 0 {
				return nil, 0, mal("packet identifier 0")
			}
		}
		p.Msg.Payload = append([]byte{}, r.b[r.pos:]...)
	case PUBACK, PUBREC, PUBREL, PUBCOMP, UNSUBACK:
		if rl != 2 {
			return nil, 0, mal("remaining length %d, must be 2", rl)
		}
		p.ID, _ = r.u16()
		if p.ID == 0 {
			return nil, 0, mal("packet identifier 0")
		}
	case SUBSCRIBE:
		if p.ID, err = r.u16(); err != nil {
			return nil, 0, err
		}
		if p.ID == 0 {
			return nil, 0, mal("packet identifier 0")
		}
		for r.left() > 0 {
			t, err := r.str()
			if err != nil {
				return nil, 0, err
			}
			q, err := r.u8()
			if err != nil {
				return nil, 0, err
			}
			if q > 2 {
				return nil, 0, mal("requested qos %d", q)
			}
			p.Subs = append(p.Subs, Sub{t, q})
		}
		if len(p.Subs) == 0 {
			return nil, 0, mal("subscribe without topic filter")
		}
	case SUBACK:
		if p.ID, err = r.u16(); err != nil {
			return nil, 0, err
		}
		if p.ID == 0 {
			return nil, 0, mal("packet identifier 0")
		}
		for r.left() > 0 {
			c, _ := r.u8()
			if c > 2 && c != 0x80 {
				return nil, 0, mal("suback return code %d", c)
			}
			p.Codes = append(p.Codes, c)
		}
		if len(p.Codes) == 0 {
			return nil, 0, mal("suback without return code")
		}
	case UNSUBSCRIBE:
		if p.ID, err = r.u16(); err != nil {
			return nil, 0, err
		}
		if p.ID == 0 {
			return nil, 0, mal("packet identifier 0")
		}
		for r.left() > 0 {
			t, err := r.str()
			if err != nil {
				return nil, 0, err
			}
			p.Topics = append(p.Topics, t)
		}
		if len(p.Topics) == 0 {
			return nil, 0, mal("unsubscribe without topic filter")
		}
	case PINGREQ, PINGRESP, DISCONNECT:
		if rl != 0 {
			return nil, 0, mal("remaining length %d, must be 0", rl)
		}
	default:
		return nil, 0, mal("reserved packet type %d", typ)
	}
	return p, n, nil
}

// Equal compares two neutral packets field for field (nil and empty payloads are the same).
func Equal(a, b *Pkt) bool { return a.String() == b.String() }

func (m Msg) String() string {
	return fmt.Sprintf("{%q % x q%d r%v}", m.Topic, m.Payload, m.QOS, m.Retain)
}

func (p *Pkt) String() string {
	w := "nil"
	if p.Will != nil {
		w = p.Will.String()
	}
	return fmt.Sprintf("type=%d v=%d cid=%q ka=%d clean=%v will=%s user=%v:%q pass=%v:%q sp=%v rc=%d dup=%v msg=%s id=%d subs=%v codes=%v topics=%q",
		p.Type, p.Version, p.ClientID, p.KeepAlive, p.Clean, w, p.HasUser, p.User, p.HasPass, p.Pass, p.SessionPresent, p.ReturnCode, p.Dup, p.Msg, p.ID, p.Subs, p.Codes, p.Topics)
}

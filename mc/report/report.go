// Package report turns exploration results into the interface the harness
// around /verif expects: evidence/<id>.json, replays/<id>/<n>.json,
// "VIOLATION property=<id> replay=<path>" / "KNOWN-FINDING: ..." lines and the
// exit code.
package report

import (
	"bufio"
	"encoding/json"
	"fmt"
	"os"
	"os/exec"
	"path/filepath"
	"sort"
	"strconv"
	"strings"
	"time"

	"verif/explore"
)

// Root is the verification directory (evidence, replays and known findings live there). VERIF_HOME overrides
// it for sweeps that run on a copy; registered commands never set it.
var Root = func() string {
	if h := os.Getenv("VERIF_HOME"); h != "" {
		return h
	}
	return "/verif"
}()

// Part is one sub-exploration of a check.
type Part struct {
	Name         string      `json:"name"`
	Mode         string      `json:"mode"` // schedule | history | closure | sweep
	Bound        string      `json:"bound"`
	Evaluations  int64       `json:"evaluations"`
	Nontrivial   int64       `json:"distinct_nontrivial"`
	Rule         string      `json:"rule"`
	States       int64       `json:"states,omitempty"`
	Transitions  int64       `json:"transitions,omitempty"`
	Outcomes     int         `json:"distinct_outcomes,omitempty"`
	Exhaustive   bool        `json:"exhaustive"`
	Wall         float64     `json:"wall_s"`
	MaxThreads   int         `json:"max_threads,omitempty"`
	MaxPoints    int         `json:"max_choice_points,omitempty"`
	Notes        interface{} `json:"notes,omitempty"`
	Violations   int         `json:"violations"`
	OutcomesSeen []string    `json:"outcomes_seen,omitempty"`
}

type Report struct {
	ID          string
	Tier        string
	Seed        int
	Level       string
	t0          time.Time
	Parts       []Part
	Samples     []interface{}
	Assumptions []string
	Viol        []explore.Violation
	Extra       map[string]interface{}
	deadline    time.Time
}

func New(id, tier, level string, budget time.Duration) *Report {
	seed, _ := strconv.Atoi(os.Getenv("VERIF_SEED"))
	return &Report{ID: id, Tier: tier, Seed: seed, Level: level, t0: time.Now(), Extra: map[string]interface{}{}, deadline: time.Now().Add(budget)}
}

// Deadline is the internal time budget of the check as unix nanos: a run that
// reaches it stops exploring, reports exhaustive:false and still exits 0.
func (r *Report) Deadline() int64 {
	if os.Getenv("VERIF_FAILFAST") != "" && r.hasNewViolation() {
		// development aid (mutant sweeps): once a violation that is not a known finding has been found the remaining
		// explorations are cut short; the run is then reported as not exhaustive. Registered commands never set this.
		return time.Now().Add(-time.Second).UnixNano()
	}
	return r.deadline.UnixNano()
}

func (r *Report) hasNewViolation() bool {
	kn := loadKnown()
	for _, v := range r.Viol {
		isKnown := false
		for _, k := range kn {
			if k.Status == "finding" && k.Property == r.ID && k.Clause == v.Clause && k.Signature == v.Sig {
				isKnown = true
			}
		}
		if !isKnown {
			return true
		}
	}
	return false
}

func (r *Report) TimeLeft() time.Duration { return time.Until(r.deadline) }

func (r *Report) Assume(s ...string) { r.Assumptions = append(r.Assumptions, s...) }

func (r *Report) Sample(s interface{}) {
	if len(r.Samples) < 6 {
		r.Samples = append(r.Samples, s)
	}
}

// AddExploration folds one explore.Stats into the report. nontrivial is the
// sum of the note counters named in nontrivialTags (executions in which the
// interesting thing happened), rule explains them.
func (r *Report) AddExploration(name, mode, bound string, st *explore.Stats, rule string, nontrivialTags ...string) {
	var nt int64
	for _, t := range nontrivialTags {
		nt += int64(st.Notes[t])
	}
	if len(nontrivialTags) == 0 {
		nt = int64(len(st.Outcomes))
	}
	p := Part{Name: name, Mode: mode, Bound: bound, Evaluations: int64(st.Execs), Nontrivial: nt, Rule: rule,
		States: int64(st.NStates), Transitions: st.Steps, Outcomes: len(st.Outcomes), Exhaustive: st.Complete,
		Wall: st.Wall, MaxThreads: st.MaxThreads, MaxPoints: st.MaxPoints, Notes: st.Notes, Violations: st.NViol}
	if mode == "history" {
		p.Transitions = st.Events
	}
	ks := explore.SortedKeys(st.Outcomes)
	if len(ks) > 8 {
		ks = ks[:8]
	}
	for _, k := range ks {
		if len(k) > 160 {
			k = k[:160] + "…"
		}
		p.OutcomesSeen = append(p.OutcomesSeen, k)
	}
	r.Parts = append(r.Parts, p)
	for _, s := range st.Samples {
		r.Sample(map[string]interface{}{"part": name, "trace": s})
	}
	r.Viol = append(r.Viol, st.Viol...)
	fmt.Printf("  [%s] %s bound=%s execs=%d states=%d transitions=%d outcomes=%d nontrivial=%d complete=%v viol=%d wall=%.1fs\n",
		r.ID, name, bound, st.Execs, st.NStates, p.Transitions, len(st.Outcomes), nt, st.Complete, st.NViol, st.Wall)
}

// AddSweep records an input sweep / closure computed by the check itself.
func (r *Report) AddSweep(p Part, viol []explore.Violation) {
	r.Parts = append(r.Parts, p)
	r.Viol = append(r.Viol, viol...)
	fmt.Printf("  [%s] %s (%s) evaluations=%d nontrivial=%d states=%d exhaustive=%v viol=%d wall=%.1fs\n",
		r.ID, p.Name, p.Mode, p.Evaluations, p.Nontrivial, p.States, p.Exhaustive, p.Violations, p.Wall)
}

type known struct {
	Status    string `json:"status"`
	Property  string `json:"property"`
	Clause    string `json:"clause"`
	Signature string `json:"signature"`
	What      string `json:"what"`
	Commit    string `json:"commit"`
}

func loadKnown() []known {
	f, err := os.Open(filepath.Join(Root, "known_findings.jsonl"))
	if err != nil {
		return nil
	}
	defer f.Close()
	var out []known
	sc := bufio.NewScanner(f)
	sc.Buffer(make([]byte, 1<<20), 1<<20)
	for sc.Scan() {
		line := strings.TrimSpace(sc.Text())
		if line == "" || strings.HasPrefix(line, "#") {
			continue
		}
		var k known
		if json.Unmarshal([]byte(line), &k) == nil {
			out = append(out, k)
		}
	}
	return out
}

// Finish writes evidence and replays, prints the verdict lines and returns the exit code.
func (r *Report) Finish() int {
	kn := loadKnown()
	// dedupe violations by (clause, signature), keep the shortest witness
	sort.SliceStable(r.Viol, func(i, j int) bool { return len(r.Viol[i].Choices)+len(r.Viol[i].Log) < len(r.Viol[j].Choices)+len(r.Viol[j].Log) })
	seen := map[string]bool{}
	var uniq []explore.Violation
	for _, v := range r.Viol {
		k := v.Clause + "\x00" + v.Sig
		if !seen[k] {
			seen[k] = true
			uniq = append(uniq, v)
		}
	}
	dir := filepath.Join(Root, "replays", r.ID)
	os.RemoveAll(dir)
	newViol, knownHits := 0, 0
	var knownLines []string
	for i, v := range uniq {
		isKnown := false
		for _, k := range kn {
			if k.Status == "finding" && k.Property == r.ID && k.Clause == v.Clause && k.Signature == v.Sig {
				isKnown = true
				knownLines = append(knownLines, fmt.Sprintf("KNOWN-FINDING: property=%s %s", r.ID, k.What))
			}
		}
		os.MkdirAll(dir, 0o755)
		path := filepath.Join(dir, fmt.Sprintf("%d.json", i+1))
		js, _ := json.MarshalIndent(map[string]interface{}{"property": r.ID, "known": isKnown, "violation": v}, "", " ")
		os.WriteFile(path, js, 0o644)
		if isKnown {
			knownHits++
			continue
		}
		newViol++
		fmt.Printf("VIOLATION property=%s replay=%s\n", r.ID, path)
		fmt.Printf("  clause=%s signature=%q\n  %s\n", v.Clause, v.Sig, firstLines(v.Msg, 12))
	}
	sort.Strings(knownLines)
	for i, l := range knownLines {
		if i == 0 || l != knownLines[i-1] {
			fmt.Println(l)
		}
	}
	// evidence
	var evals, nontriv, states, trans int64
	exhaustive := true
	var rules []string
	for _, p := range r.Parts {
		evals += p.Evaluations
		nontriv += p.Nontrivial
		states += p.States
		trans += p.Transitions
		if !p.Exhaustive {
			exhaustive = false
		}
		rules = append(rules, p.Name+": "+p.Rule)
	}
	cov := map[string]interface{}{
		"evaluations":         evals,
		"distinct_nontrivial": nontriv,
		"rule":                strings.Join(rules, " | "),
		"samples":             r.Samples,
		"exhaustive":          exhaustive,
		"parts":               r.Parts,
		"known_findings_hit":  knownHits,
	}
	if r.Level == "model_checking" {
		if states < 1 {
			states = 1
		}
		if trans < 1 {
			trans = 1
		}
		cov["states"] = states
		cov["transitions"] = trans
		cov["traces_validated_against_impl"] = evals
		cov["explanation"] = "the explored system IS the implementation (sources of /repo rewritten onto a controlled scheduler at check time), so every explored trace is an implementation trace; 'states' counts distinct observable-state fingerprints reached, 'transitions' scheduling steps (schedule mode) or environment events (history mode)"
	}
	for k, v := range r.Extra {
		cov[k] = v
	}
	if len(r.Samples) == 0 {
		cov["samples"] = []interface{}{"(no sample recorded)"}
	}
	ev := map[string]interface{}{
		"property_id": r.ID,
		"tier":        r.Tier,
		"seed":        r.Seed,
		"level":       r.Level,
		"coverage":    cov,
		"assumptions": r.Assumptions,
		"wall_s":      time.Since(r.t0).Seconds(),
		"violations":  newViol,
	}
	os.MkdirAll(filepath.Join(Root, "evidence"), 0o755)
	js, _ := json.MarshalIndent(ev, "", " ")
	if err := os.WriteFile(filepath.Join(Root, "evidence", r.ID+".json"), js, 0o644); err != nil {
		fmt.Fprintln(os.Stderr, "ENGINE ERROR: cannot write evidence:", err)
		return 2
	}
	fmt.Printf("%s %s: evaluations=%d nontrivial=%d exhaustive=%v new_violations=%d known_findings=%d wall=%.1fs\n",
		r.ID, r.Tier, evals, nontriv, exhaustive, newViol, knownHits, time.Since(r.t0).Seconds())
	if newViol > 0 {
		return 1
	}
	return 0
}

func firstLines(s string, n int) string {
	ls := strings.Split(s, "\n")
	if len(ls) > n {
		ls = ls[:n]
	}
	return strings.Join(ls, "\n  ")
}

// Check is a registered property check.
type Check struct {
	Level          string // evidence level
	QuickBudget    time.Duration
	ThoroughBudget time.Duration
	Run            func(r *Report)
}

var Checks = map[string]Check{}

func Register(id string, c Check) { Checks[id] = c }

// Workers is the number of worker processes explorations should use.
func Workers() int {
	if n, err := strconv.Atoi(os.Getenv("VERIF_WORKERS")); err == nil && n > 0 {
		return n
	}
	return 16
}

// RacePass runs the native -race supplement (cmd/racepass, built next to this
// binary) for the property and folds its verdict into the report. A data race
// whose report mentions a gomqtt package is a violation; the pass is sampling
// over schedules (one native run per program) and never counts as exhaustive.
func (r *Report) RacePass() {
	exe, err := os.Executable()
	if err != nil {
		return
	}
	bin := filepath.Join(filepath.Dir(exe), "racepass")
	if _, err := os.Stat(bin); err != nil {
		r.Extra["race_pass"] = "not built"
		return
	}
	t0 := time.Now()
	cmd := exec.Command(bin, r.ID)
	cmd.Env = append(os.Environ(), "GORACE=halt_on_error=0 exitcode=0")
	var errb, outb strings.Builder
	cmd.Stderr = &errb
	cmd.Stdout = &outb
	runErr := cmd.Run()
	reports := strings.Split(errb.String(), "WARNING: DATA RACE")
	n := len(reports) - 1
	var programs, runs int
	fmt.Sscanf(strings.TrimSpace(outb.String()), "RACEPASS programs=%d runs=%d", &programs, &runs)
	r.Extra["race_pass"] = map[string]interface{}{"programs": programs, "runs": runs, "reports": n, "wall_s": time.Since(t0).Seconds(),
		"note": "non-deciding supplement: native -race run of every 2-3 thread program over the conflict-forced alphabet; catches unsynchronised accesses the cooperative scheduler cannot see"}
	fmt.Printf("  [%s] race-pass programs=%d runs=%d data-race-reports=%d wall=%.1fs\n", r.ID, programs, runs, n, time.Since(t0).Seconds())
	if runErr != nil && n == 0 {
		fmt.Fprintf(os.Stderr, "ENGINE ERROR: race pass failed: %v\n%s\n", runErr, firstLines(errb.String(), 30))
		os.Exit(2)
	}
	seen := map[string]bool{}
	for _, rep := range reports[1:] {
		if !strings.Contains(rep, "github.com/256dpi/gomqtt/") {
			continue
		}
		// signature: the gomqtt functions on top of the two stacks
		var fns []string
		for _, l := range strings.Split(rep, "\n") {
			l = strings.TrimSpace(l)
			if strings.HasPrefix(l, "github.com/256dpi/gomqtt/") {
				fn := l
				if i := strings.Index(fn, "("); i > 0 {
					fn = fn[:i]
				}
				fns = append(fns, strings.TrimPrefix(fn, "github.com/256dpi/gomqtt/"))
				if len(fns) == 2 {
					break
				}
			}
		}
		sig := "data-race:" + strings.Join(fns, "|")
		if seen[sig] {
			continue
		}
		seen[sig] = true
		r.Viol = append(r.Viol, explore.Violation{Harness: "racepass", Params: r.ID, Clause: "no-data-race", Sig: sig, Msg: "the race detector reports a data race between library operations (native run, no scheduler):\nWARNING: DATA RACE" + firstLines(rep, 40)})
	}
}

// Seconds returns the real wall-clock seconds since the report was created (harness packages are rewritten
// onto a virtual clock, so they cannot measure real time themselves).
func (r *Report) Seconds() float64 { return time.Since(r.t0).Seconds() }

package explore

import (
	"fmt"
	"strings"
	"time"
)

// Closure is an explicit-state breadth-first search over the states of a
// small sequential object: a state is represented by the shortest operation
// path reaching it (live objects cannot be cloned, so successors are built by
// replaying the path on a fresh object plus one operation) and deduplicated
// on a canonical key of the implementation state.
type Closure struct {
	Name  string
	Ops   []string                                  // operation names (alphabet)
	Build func(path []int) (sys interface{})        // fresh system with the path applied (oracle clauses may fail inside via Check)
	Key   func(sys interface{}) string              // canonical implementation-state key
	Check func(sys interface{}, path []int) []ClauseFail // evaluated in every state (after every transition)
	Max   int                                       // safety cap on states (0 = 1e6)
}

type ClauseFail struct{ Clause, Sig, Msg string }

type ClosureResult struct {
	States, Transitions int
	MaxDepth            int
	Complete            bool
	Viol                []Violation
	NViol               int
	Samples             []string
	Wall                float64
}

func (c *Closure) pathString(p []int) string {
	var s []string
	for _, o := range p {
		s = append(s, c.Ops[o])
	}
	return strings.Join(s, " ; ")
}

// Run explores to a fixpoint (or to the cap / deadline, reported as !Complete).
func (c *Closure) Run(deadline int64) *ClosureResult {
	t0 := time.Now()
	res := &ClosureResult{Complete: true}
	max := c.Max
	if max == 0 {
		max = 1000000
	}
	seen := map[string]bool{}
	sigSeen := map[string]bool{}
	visit := func(path []int) (key string, fresh bool) {
		// a panic of the code under test is a verdict (no-panic clause), not a crash of the checker
		defer func() {
			if r := recover(); r != nil {
				EngineFault(r)
				res.NViol++
				k := "no-panic\x00panic"
				if !sigSeen[k] {
					sigSeen[k] = true
					res.Viol = append(res.Viol, Violation{Harness: c.Name, Params: c.pathString(path), Clause: "no-panic", Sig: "panic:" + normPanic(fmt.Sprint(r)), Msg: fmt.Sprintf("panic: %v\noperations: %s", r, c.pathString(path))})
				}
				key, fresh = "", false
			}
		}()
		sys := c.Build(path)
		for _, f := range c.Check(sys, path) {
			res.NViol++
			k := f.Clause + "\x00" + f.Sig
			if !sigSeen[k] && len(res.Viol) < 32 {
				sigSeen[k] = true
				res.Viol = append(res.Viol, Violation{Harness: c.Name, Params: c.pathString(path), Clause: f.Clause, Sig: f.Sig, Msg: f.Msg + "\noperations: " + c.pathString(path)})
			}
		}
		k := c.Key(sys)
		if seen[k] {
			return k, false
		}
		seen[k] = true
		return k, true
	}
	visit(nil)
	frontier := [][]int{nil}
	depth := 0
	for len(frontier) > 0 {
		var next [][]int
		for _, p := range frontier {
			for o := range c.Ops {
				if deadline > 0 && res.Transitions%256 == 0 && time.Now().UnixNano() > deadline {
					res.Complete = false
					goto done
				}
				np := append(append(make([]int, 0, len(p)+1), p...), o)
				res.Transitions++
				if _, fresh := visit(np); fresh {
					if len(seen) > max {
						res.Complete = false
						goto done
					}
					next = append(next, np)
					if len(res.Samples) < 3 && (len(seen)%131 == 7) {
						res.Samples = append(res.Samples, c.pathString(np))
					}
				}
			}
		}
		frontier = next
		if len(next) > 0 {
			depth++
		}
	}
done:
	res.States = len(seen)
	res.MaxDepth = depth
	res.Wall = time.Since(t0).Seconds()
	if len(res.Samples) == 0 {
		res.Samples = append(res.Samples, fmt.Sprintf("(initial state only; %d states)", res.States))
	}
	return res
}

// Sequences checks every operation sequence of length 1..depth on a fresh instance WITHOUT merging states. It
// complements Run: the closure merges states whose observable key is equal, which is exactly what hides state the
// key cannot see (a cached pointer that only a particular history leaves behind); a bounded enumeration of histories
// has no such blind spot. run distributes the work (par.Run, passed in to keep this package free of it).
func (c *Closure) Sequences(depth int, deadline int64, run func(gen func(emit func([]int)), work func([]int) []ClauseFail, collect func([]int, []ClauseFail), deadline int64) bool) *ClosureResult {
	t0 := time.Now()
	res := &ClosureResult{}
	sigSeen := map[string]bool{}
	var gen func(emit func([]int))
	gen = func(emit func([]int)) {
		var rec func(p []int)
		rec = func(p []int) {
			if len(p) > 0 {
				emit(append([]int{}, p...))
			}
			if len(p) == depth {
				return
			}
			for o := range c.Ops {
				rec(append(p, o))
			}
		}
		rec(nil)
	}
	work := func(path []int) (fs []ClauseFail) {
		defer func() {
			if r := recover(); r != nil {
				EngineFault(r)
				fs = append(fs, ClauseFail{Clause: "no-panic", Sig: "panic:" + normPanic(fmt.Sprint(r)), Msg: fmt.Sprintf("panic: %v", r)})
			}
		}()
		return c.Check(c.Build(path), path)
	}
	res.Complete = run(gen, work, func(path []int, fs []ClauseFail) {
		res.Transitions++
		for _, f := range fs {
			res.NViol++
			k := f.Clause + "\x00" + f.Sig
			if !sigSeen[k] && len(res.Viol) < 32 {
				sigSeen[k] = true
				res.Viol = append(res.Viol, Violation{Harness: c.Name, Params: c.pathString(path), Clause: f.Clause, Sig: f.Sig, Msg: f.Msg + "\noperations: " + c.pathString(path)})
			}
		}
	}, deadline)
	res.MaxDepth = depth
	res.Wall = time.Since(t0).Seconds()
	return res
}

// EngineFault re-raises a recovered panic that comes from the engine itself (a go statement, a timer or a blocking
// operation outside a controlled execution: sequential sweeps run the library in pass-through mode, where only
// sequential code is supported). Such a panic says nothing about the property - the run must end as an engine error
// (exit 2, no verdict), never as a violation.
func EngineFault(r interface{}) {
	if s, ok := r.(string); ok && strings.HasPrefix(s, "vrt:") {
		panic(r)
	}
	if e, ok := r.(error); ok && strings.HasPrefix(e.Error(), "vrt:") {
		panic(r)
	}
}

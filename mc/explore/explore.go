// Package explore is the stateless depth-first search over choice sequences
// with a deviation bound (CHESS-style), sharded over worker processes.
//
// A harness is a function run once per execution under the controlled
// scheduler (package vrt). Every decision the execution takes (which thread
// runs next, which ready select case fires, which map order is used, which
// environment event comes next) is a numbered choice point. The explorer runs
// the default execution (choice 0 everywhere), then for every recorded point
// and every alternative re-runs with that prefix, charging the alternative
// against the deviation bound unless it is an environment choice.
package explore

import (
	"bufio"
	"encoding/json"
	"fmt"
	"os"
	"os/exec"
	"sort"
	"strings"
	"sync"
	"time"

	"verif/vrt"
)

// X is the per-execution context handed to a harness.
type X struct {
	Trace    bool
	viol     []Violation
	notes    map[string]int
	log      []string
	outcome  string
	events   int
	statekey []string
}

// Violation is one failed oracle clause in one execution.
type Violation struct {
	Harness string   `json:"harness"`
	Params  string   `json:"params"`
	Clause  string   `json:"clause"`    // oracle clause id
	Sig     string   `json:"signature"` // normalised witness; matched against known findings
	Msg     string   `json:"message"`
	Choices []int    `json:"choices"`
	Log     []string `json:"log,omitempty"`
	Bound   int      `json:"bound"`
}

// Failf records a violation of an oracle clause. sig identifies the witness
// class (used to match known findings); it must not contain run-specific ids.
func (x *X) Failf(clause, sig, format string, a ...interface{}) {
	x.viol = append(x.viol, Violation{Clause: clause, Sig: sig, Msg: fmt.Sprintf(format, a...)})
}

// Failed reports whether the execution already has a violation.
func (x *X) Failed() bool { return len(x.viol) > 0 }

// Note counts a coverage tag ("a retransmission happened", "two connects raced").
func (x *X) Note(tag string) {
	if x.notes == nil {
		x.notes = map[string]int{}
	}
	x.notes[tag]++
}

// Logf appends to the execution's event log (always kept: it is small, and it
// is what a replay prints and what evidence samples show).
func (x *X) Logf(format string, a ...interface{}) {
	x.log = append(x.log, fmt.Sprintf(format, a...))
}

// Log returns the event log so far.
func (x *X) Log() []string { return x.log }

// Outcome sets the observable outcome of the execution (distinct outcomes are counted).
func (x *X) Outcome(s string) { x.outcome = s }

// Event counts one environment transition (history mode) and records the
// fingerprint of the observable state reached by it.
func (x *X) Event(stateFingerprint string) {
	x.events++
	x.statekey = append(x.statekey, stateFingerprint)
}

// Harness is one controlled execution.
type Harness func(x *X)

// Factory builds a harness from JSON parameters (needed because workers are
// separate processes).
type Factory func(params string) Harness

var registry = map[string]Factory{}

// Register makes a harness available to workers under name.
func Register(name string, f Factory) { registry[name] = f }

// Config of one exploration.
type Config struct {
	Harness    string
	Params     string
	Bound      int   // max deviations
	FreeSwitch bool  // preemption bounding: switching away from a blocked thread is free
	MaxSteps   int   // per execution scheduling-point cap (livelock guard)
	Deadline   int64 // unix nanos; 0 = none. Reaching it ends the run with Complete=false
	Workers    int   // worker processes; 0 = in-process
	MaxViol    int   // stop collecting after this many distinct signatures
	EnvCost    bool  // environment choices also cost a deviation (fault bounding)
	// OnlyClauses, if set, keeps only violations of these oracle clauses (a harness shared by two
	// properties reports each clause under the property it belongs to)
	OnlyClauses []string
}

// Stats of one exploration (mergeable).
type Stats struct {
	Execs      int            `json:"execs"`
	Steps      int64          `json:"steps"`  // scheduling points executed (transitions)
	Points     int64          `json:"points"` // choice points with >1 option
	Events     int64          `json:"events"` // environment events applied (history mode)
	MaxPoints  int            `json:"max_points"`
	MaxSteps   int            `json:"max_steps"`
	MaxThreads int            `json:"max_threads"`
	Outcomes   map[string]int `json:"outcomes"`
	Notes      map[string]int `json:"notes"`
	States     map[string]int `json:"-"`
	NStates    int            `json:"states"`
	Panics     int            `json:"panics"`
	Deadlocks  int            `json:"deadlocks"`
	Overruns   int            `json:"overruns"`
	Viol       []Violation    `json:"violations"`
	NViol      int            `json:"nviol"`
	Complete   bool           `json:"complete"`
	Samples    [][]string     `json:"samples"`
	Wall       float64        `json:"wall_s"`
	Bound      int            `json:"bound"`
}

func newStats() *Stats {
	return &Stats{Outcomes: map[string]int{}, Notes: map[string]int{}, States: map[string]int{}, Complete: true}
}

const maxOutcomes = 4096

func (st *Stats) merge(o *Stats) {
	st.Execs += o.Execs
	st.Steps += o.Steps
	st.Points += o.Points
	st.Events += o.Events
	if o.MaxPoints > st.MaxPoints {
		st.MaxPoints = o.MaxPoints
	}
	if o.MaxSteps > st.MaxSteps {
		st.MaxSteps = o.MaxSteps
	}
	if o.MaxThreads > st.MaxThreads {
		st.MaxThreads = o.MaxThreads
	}
	for k, v := range o.Outcomes {
		if _, ok := st.Outcomes[k]; ok || len(st.Outcomes) < maxOutcomes {
			st.Outcomes[k] += v
		}
	}
	for k, v := range o.Notes {
		st.Notes[k] += v
	}
	for k, v := range o.States {
		st.States[k] += v
	}
	st.Panics += o.Panics
	st.Deadlocks += o.Deadlocks
	st.Overruns += o.Overruns
	st.NViol += o.NViol
	for _, v := range o.Viol {
		st.addViol(v, 64)
	}
	if !o.Complete {
		st.Complete = false
	}
	for _, s := range o.Samples {
		if len(st.Samples) < 3 {
			st.Samples = append(st.Samples, s)
		}
	}
}

// addViol keeps, per signature, the violation with the shortest choice list.
func (st *Stats) addViol(v Violation, max int) {
	for i, w := range st.Viol {
		if w.Sig == v.Sig && w.Clause == v.Clause {
			if len(v.Choices) < len(w.Choices) {
				st.Viol[i] = v
			}
			return
		}
	}
	if len(st.Viol) < max {
		st.Viol = append(st.Viol, v)
	}
}

type item struct {
	Prefix []int `json:"p"`
	Used   int   `json:"u"`
}

func cost(p vrt.Point, cfg *Config) int {
	if strings.HasPrefix(p.Kind, "env:") {
		if cfg.EnvCost {
			return 1
		}
		return 0
	}
	if p.Preempt {
		return 1
	}
	if cfg.FreeSwitch {
		return 0
	}
	return 1
}

func choices(ps []vrt.Point) []int {
	out := make([]int, len(ps))
	for i, p := range ps {
		out[i] = p.Chosen
	}
	return out
}

// RunOne executes the harness once along prefix and returns the context and the raw result.
func RunOne(h Harness, prefix []int, maxSteps int, trace bool) (*X, vrt.Result) {
	x := &X{Trace: trace}
	res := vrt.Run(func() { h(x) }, prefix, maxSteps, trace)
	return x, res
}

// account runs one execution, folds it into st and returns the children to explore.
func account(h Harness, cfg *Config, it item, st *Stats) []item {
	x, res := RunOne(h, it.Prefix, cfg.MaxSteps, false)
	if res.Diverged {
		fmt.Fprintf(os.Stderr, "ENGINE ERROR: %s (harness %s params %s prefix %v)\n", res.Panic, cfg.Harness, cfg.Params, it.Prefix)
		os.Exit(2)
	}
	st.Execs++
	st.Steps += int64(res.Steps)
	st.Points += int64(len(res.Points))
	st.Events += int64(x.events)
	if len(res.Points) > st.MaxPoints {
		st.MaxPoints = len(res.Points)
	}
	if res.Steps > st.MaxSteps {
		st.MaxSteps = res.Steps
	}
	if res.Threads > st.MaxThreads {
		st.MaxThreads = res.Threads
	}
	for _, k := range x.statekey {
		st.States[k]++
	}
	ch := choices(res.Points)
	out := x.outcome
	switch {
	case res.Panic != "":
		st.Panics++
		first := strings.SplitN(res.Panic, "\n", 2)[0]
		out = "PANIC " + first
		x.viol = append(x.viol, Violation{Clause: "no-panic", Sig: "panic:" + normPanic(first), Msg: res.Panic})
	case res.Overrun:
		st.Overruns++
		out = "OVERRUN"
		x.viol = append(x.viol, Violation{Clause: "terminates", Sig: "overrun", Msg: fmt.Sprintf("execution exceeded %d scheduling points (livelock?)", cfg.MaxSteps)})
	case res.Deadlock:
		st.Deadlocks++
		out = "DEADLOCK " + out
		x.viol = append(x.viol, Violation{Clause: "no-deadlock", Sig: "deadlock:main", Msg: "the harness main thread is blocked and no thread is enabled: " + strings.Join(res.Blocked, ", ")})
	}
	if _, ok := st.Outcomes[out]; ok || len(st.Outcomes) < maxOutcomes {
		st.Outcomes[out]++
	}
	for k, v := range x.notes {
		st.Notes[k] += v
	}
	if len(st.Samples) < 3 && len(x.log) > 0 && (st.Execs == 1 || st.Execs%97 == 0) {
		st.Samples = append(st.Samples, x.log)
	}
	for _, v := range x.viol {
		if len(cfg.OnlyClauses) > 0 {
			keep := false
			for _, c := range cfg.OnlyClauses {
				if c == v.Clause || v.Clause == "no-panic" || v.Clause == "no-deadlock" || v.Clause == "terminates" {
					keep = true
				}
			}
			if !keep {
				continue
			}
		}
		v.Harness, v.Params, v.Choices, v.Log, v.Bound = cfg.Harness, cfg.Params, ch, x.log, it.Used
		st.NViol++
		st.addViol(v, cfg.MaxViol)
	}
	var kids []item
	for i := len(it.Prefix); i < len(res.Points); i++ {
		p := res.Points[i]
		c := cost(p, cfg)
		if it.Used+c > cfg.Bound {
			continue
		}
		for alt := 1; alt < p.N; alt++ {
			np := make([]int, i+1)
			copy(np, ch[:i])
			np[i] = alt
			kids = append(kids, item{Prefix: np, Used: it.Used + c})
		}
	}
	return kids
}

func normPanic(s string) string {
	// drop the thread name prefix "m.1.2: "
	if i := strings.Index(s, ": "); i >= 0 && i < 24 {
		s = s[i+2:]
	}
	// drop addresses
	var b strings.Builder
	for _, f := range strings.Fields(s) {
		if strings.HasPrefix(f, "0x") || strings.HasPrefix(f, "(0x") {
			continue
		}
		b.WriteString(f)
		b.WriteByte(' ')
	}
	return strings.TrimSpace(b.String())
}

func dfs(h Harness, cfg *Config, root item, st *Stats) {
	stack := []item{root}
	for len(stack) > 0 {
		if cfg.Deadline > 0 && st.Execs%64 == 0 && time.Now().UnixNano() > cfg.Deadline {
			st.Complete = false
			return
		}
		it := stack[len(stack)-1]
		stack = stack[:len(stack)-1]
		kids := account(h, cfg, it, st)
		// push in reverse so that the first alternative is explored first
		for i := len(kids) - 1; i >= 0; i-- {
			stack = append(stack, kids[i])
		}
	}
}

// Explore runs the exploration described by cfg.
func Explore(cfg Config) *Stats {
	t0 := time.Now()
	f, ok := registry[cfg.Harness]
	if !ok {
		panic("explore: unknown harness " + cfg.Harness)
	}
	if cfg.MaxSteps == 0 {
		cfg.MaxSteps = 50000
	}
	if cfg.MaxViol == 0 {
		cfg.MaxViol = 32
	}
	h := f(cfg.Params)
	st := newStats()
	st.Bound = cfg.Bound
	if cfg.Workers <= 1 {
		dfs(h, &cfg, item{}, st)
	} else {
		// breadth-first in the parent until there is enough to hand out
		queue := []item{{}}
		for len(queue) > 0 && (st.Execs < 48 || len(queue) < 4*cfg.Workers) && st.Execs < 400 {
			it := queue[0]
			queue = queue[1:]
			queue = append(queue, account(h, &cfg, it, st)...)
		}
		if len(queue) > 0 {
			farm(&cfg, queue, st)
		}
	}
	st.NStates = len(st.States)
	st.Wall = time.Since(t0).Seconds()
	return st
}

// farm distributes items over worker processes (dynamic load balancing).
func farm(cfg *Config, queue []item, st *Stats) {
	exe, err := os.Executable()
	if err != nil {
		panic(err)
	}
	var mu sync.Mutex
	next := 0
	var wg sync.WaitGroup
	var firstErr error
	for w := 0; w < cfg.Workers && w < len(queue); w++ {
		wg.Add(1)
		go func() {
			defer wg.Done()
			cmd := exec.Command(exe, "-worker")
			cmd.Env = append(os.Environ(), "GOMAXPROCS=1")
			cmd.Stderr = os.Stderr
			in, _ := cmd.StdinPipe()
			outp, _ := cmd.StdoutPipe()
			if err := cmd.Start(); err != nil {
				mu.Lock()
				firstErr = err
				mu.Unlock()
				return
			}
			enc := json.NewEncoder(in)
			rd := bufio.NewReaderSize(outp, 1<<20)
			enc.Encode(cfg)
			for {
				mu.Lock()
				if next >= len(queue) || firstErr != nil {
					mu.Unlock()
					break
				}
				it := queue[next]
				next++
				mu.Unlock()
				if err := enc.Encode(it); err != nil {
					mu.Lock()
					firstErr = fmt.Errorf("worker write: %v", err)
					mu.Unlock()
					break
				}
				line, err := rd.ReadBytes('\n')
				if err != nil {
					mu.Lock()
					firstErr = fmt.Errorf("worker died on item %v: %v", it, err)
					mu.Unlock()
					break
				}
				var sub Stats
				sub.States = map[string]int{}
				var wire struct {
					Stats
					StateKeys []string `json:"state_keys"`
				}
				if err := json.Unmarshal(line, &wire); err != nil {
					mu.Lock()
					firstErr = fmt.Errorf("worker reply: %v", err)
					mu.Unlock()
					break
				}
				sub = wire.Stats
				sub.States = map[string]int{}
				for _, k := range wire.StateKeys {
					sub.States[k] = 1
				}
				mu.Lock()
				st.merge(&sub)
				mu.Unlock()
			}
			in.Close()
			cmd.Wait()
		}()
	}
	wg.Wait()
	if firstErr != nil {
		fmt.Fprintln(os.Stderr, "ENGINE ERROR:", firstErr)
		os.Exit(2)
	}
}

// WorkerMain serves exploration items on stdin/stdout (invoked as "<exe> -worker").
func WorkerMain() {
	rd := bufio.NewReaderSize(os.Stdin, 1<<20)
	dec := json.NewDecoder(rd)
	var cfg Config
	if err := dec.Decode(&cfg); err != nil {
		os.Exit(0)
	}
	f, ok := registry[cfg.Harness]
	if !ok {
		fmt.Fprintln(os.Stderr, "worker: unknown harness", cfg.Harness)
		os.Exit(2)
	}
	h := f(cfg.Params)
	out := bufio.NewWriter(os.Stdout)
	for {
		var it item
		if err := dec.Decode(&it); err != nil {
			return
		}
		st := newStats()
		dfs(h, &cfg, it, st)
		keys := make([]string, 0, len(st.States))
		for k := range st.States {
			keys = append(keys, k)
		}
		js, _ := json.Marshal(struct {
			*Stats
			StateKeys []string `json:"state_keys"`
		}{st, keys})
		out.Write(js)
		out.WriteByte('\n')
		out.Flush()
	}
}

// Replay re-executes a recorded choice list twice with tracing on and checks
// that both runs agree; it returns the context of the first run.
func Replay(v Violation) (*X, vrt.Result, error) {
	f, ok := registry[v.Harness]
	if !ok {
		return nil, vrt.Result{}, fmt.Errorf("unknown harness %q", v.Harness)
	}
	x1, r1 := RunOne(f(v.Params), v.Choices, 200000, true)
	x2, r2 := RunOne(f(v.Params), v.Choices, 200000, true)
	if strings.Join(r1.Log, "\n") != strings.Join(r2.Log, "\n") || strings.Join(x1.log, "\n") != strings.Join(x2.log, "\n") {
		return x1, r1, fmt.Errorf("replay is not deterministic: two runs of the same choice list differ")
	}
	return x1, r1, nil
}

// Violations of an execution (for replay printing).
func (x *X) Violations() []Violation { return x.viol }

// SortedKeys is a helper for deterministic printing.
func SortedKeys(m map[string]int) []string {
	ks := make([]string, 0, len(m))
	for k := range m {
		ks = append(ks, k)
	}
	sort.Strings(ks)
	return ks
}

// Lookup returns a registered harness factory.
func Lookup(name string) Factory { return registry[name] }

// Package vsync shadows package sync for rewritten code.
package vsync

import (
	realsync "sync"

	"verif/vrt"
)

type Locker interface {
	Lock()
	Unlock()
}

type Mutex struct {
	locked bool
}

func (m *Mutex) Lock() {
	vrt.Yield(func() bool { return !m.locked }, "Mutex.Lock")
	m.locked = true
}

func (m *Mutex) TryLock() bool {
	vrt.Yield(nil, "Mutex.TryLock")
	if m.locked {
		return false
	}
	m.locked = true
	return true
}

func (m *Mutex) Unlock() {
	if vrt.Aborting() {
		return
	}
	if !m.locked {
		panic("sync: unlock of unlocked mutex")
	}
	m.locked = false
}

type RWMutex struct {
	writer  bool
	readers int
}

func (m *RWMutex) Lock() {
	vrt.Yield(func() bool { return !m.writer && m.readers == 0 }, "RWMutex.Lock")
	m.writer = true
}

func (m *RWMutex) Unlock() {
	if vrt.Aborting() {
		return
	}
	if !m.writer {
		panic("sync: Unlock of unlocked RWMutex")
	}
	m.writer = false
}

func (m *RWMutex) RLock() {
	vrt.Yield(func() bool { return !m.writer }, "RWMutex.RLock")
	m.readers++
}

func (m *RWMutex) RUnlock() {
	if vrt.Aborting() {
		return
	}
	if m.readers <= 0 {
		panic("sync: RUnlock of unlocked RWMutex")
	}
	m.readers--
}

func (m *RWMutex) RLocker() Locker { return (*rlocker)(m) }

type rlocker RWMutex

func (r *rlocker) Lock()   { (*RWMutex)(r).RLock() }
func (r *rlocker) Unlock() { (*RWMutex)(r).RUnlock() }

type Once struct {
	m    Mutex
	done bool
}

func (o *Once) Do(f func()) {
	o.m.Lock()
	defer o.m.Unlock()
	if !o.done {
		defer func() { o.done = true }()
		f()
	}
}

type WaitGroup struct {
	n int
}

func (w *WaitGroup) Add(d int) {
	w.n += d
	if w.n < 0 {
		panic("sync: negative WaitGroup counter")
	}
}
func (w *WaitGroup) Done() { w.Add(-1) }
func (w *WaitGroup) Wait() {
	vrt.Yield(func() bool { return w.n == 0 }, "WaitGroup.Wait")
}

// Pool is deterministic: LIFO free list, so that buffer reuse (and any
// aliasing of pooled memory) happens on every execution.
// (A real mutex guards the free list: sequential sweeps run on several real goroutines in pass-through mode; under
// the controlled scheduler only one thread runs at a time, so the mutex is never contended there.)
type Pool struct {
	New  func() interface{}
	free []interface{}
	mu   realsync.Mutex
}

func (p *Pool) Get() interface{} {
	p.mu.Lock()
	if n := len(p.free); n > 0 {
		x := p.free[n-1]
		p.free = p.free[:n-1]
		p.mu.Unlock()
		return x
	}
	p.mu.Unlock()
	if p.New != nil {
		return p.New()
	}
	return nil
}

func (p *Pool) Put(x interface{}) {
	if x == nil {
		return
	}
	p.mu.Lock()
	p.free = append(p.free, x)
	p.mu.Unlock()
}

package vsync

// sync.Cond, sync.Map and the Once helpers, for changes to the code under test that start using them (the tree as it
// stands uses none of this).

import "verif/vrt"

// Cond: Wait releases the lock, parks until a later Signal / Broadcast, and takes the lock again.
type Cond struct {
	L       Locker
	waiters []*condWaiter
}

type condWaiter struct{ woken bool }

func NewCond(l Locker) *Cond { return &Cond{L: l} }

func (c *Cond) Wait() {
	w := &condWaiter{}
	c.waiters = append(c.waiters, w)
	c.L.Unlock()
	vrt.Yield(func() bool { return w.woken }, "Cond.Wait")
	c.L.Lock()
}

func (c *Cond) Signal() {
	vrt.Yield(nil, "Cond.Signal")
	if len(c.waiters) > 0 {
		c.waiters[0].woken = true
		c.waiters = c.waiters[1:]
	}
}

func (c *Cond) Broadcast() {
	vrt.Yield(nil, "Cond.Broadcast")
	for _, w := range c.waiters {
		w.woken = true
	}
	c.waiters = nil
}

// Map: a mutex-protected map with insertion-ordered Range (deterministic).
type Map struct {
	mu   Mutex
	m    map[interface{}]interface{}
	keys []interface{}
}

func (m *Map) Load(k interface{}) (interface{}, bool) {
	m.mu.Lock()
	defer m.mu.Unlock()
	v, ok := m.m[k]
	return v, ok
}

func (m *Map) Store(k, v interface{}) {
	m.mu.Lock()
	defer m.mu.Unlock()
	if m.m == nil {
		m.m = map[interface{}]interface{}{}
	}
	if _, ok := m.m[k]; !ok {
		m.keys = append(m.keys, k)
	}
	m.m[k] = v
}

func (m *Map) LoadOrStore(k, v interface{}) (interface{}, bool) {
	m.mu.Lock()
	defer m.mu.Unlock()
	if m.m == nil {
		m.m = map[interface{}]interface{}{}
	}
	if old, ok := m.m[k]; ok {
		return old, true
	}
	m.keys = append(m.keys, k)
	m.m[k] = v
	return v, false
}

func (m *Map) LoadAndDelete(k interface{}) (interface{}, bool) {
	m.mu.Lock()
	defer m.mu.Unlock()
	v, ok := m.m[k]
	if ok {
		delete(m.m, k)
		for i, x := range m.keys {
			if x == k {
				m.keys = append(m.keys[:i:i], m.keys[i+1:]...)
				break
			}
		}
	}
	return v, ok
}

func (m *Map) Delete(k interface{}) { m.LoadAndDelete(k) }

func (m *Map) Range(f func(k, v interface{}) bool) {
	m.mu.Lock()
	ks := append([]interface{}{}, m.keys...)
	m.mu.Unlock()
	for _, k := range ks {
		v, ok := m.Load(k)
		if !ok {
			continue
		}
		if !f(k, v) {
			return
		}
	}
}

// OnceFunc / OnceValue as in Go 1.21.
func OnceFunc(f func()) func() {
	var o Once
	return func() { o.Do(f) }
}

func OnceValue[T any](f func() T) func() T {
	var o Once
	var v T
	return func() T {
		o.Do(func() { v = f() })
		return v
	}
}

// Package order: C15 - per-publisher message order is preserved end to end,
// including retransmissions after a resumed session.
package order

import (
	"encoding/json"
	"fmt"
	"strings"
	"time"

	"github.com/256dpi/gomqtt/broker"
	"github.com/256dpi/gomqtt/packet"
	"github.com/256dpi/gomqtt/session"

	"verif/explore"
	"verif/h/env"
	"verif/report"
	"verif/vrt"
)

type params struct {
	Mode   string // live | resume | cut
	Window int
	Msgs   int
	Queue  int // session queue capacity (0 = 32); 1 makes the subscribers' queues fill up, so that publishes wait for room
}

func init() {
	report.Register("C15", report.Check{Level: "model_checking", QuickBudget: 240 * time.Second, ThoroughBudget: 25 * time.Minute, Run: run})
	explore.Register("C15.order", func(p string) explore.Harness {
		var pr params
		json.Unmarshal([]byte(p), &pr)
		return func(x *explore.X) {
			if pr.Mode == "live" {
				live(x, pr)
			} else if pr.Mode == "cut" {
				cut(x, pr)
			} else {
				resume(x, pr)
			}
		}
	})
}

var patterns = [][]packet.QOS{{0, 0, 0}, {1, 1, 1}, {2, 2, 2}, {1, 2, 1}, {2, 0, 2}}

// autonomous subscriber: reads and acknowledges until the connection ends
func subscriber(c *env.Client, log *[]env.Delivery) {
	for {
		pkt, err := c.End.Receive()
		if err != nil {
			return
		}
		switch p := pkt.(type) {
		case *packet.Publish:
			*log = append(*log, env.Delivery{Topic: p.Message.Topic, Payload: string(p.Message.Payload), QOS: p.Message.QOS, Dup: p.Dup, ID: p.ID})
			switch p.Message.QOS {
			case 1:
				c.Send(env.Puback(p.ID))
			case 2:
				c.Send(env.Pubrec(p.ID))
			}
		case *packet.Pubrel:
			c.Send(env.Pubcomp(p.ID))
		}
	}
}

// autonomous publisher: sends its numbered messages, then completes the handshakes
func publisher(c *env.Client, name string, qs []packet.QOS) {
	open := 0
	for i, q := range qs {
		var id packet.ID
		if q > 0 {
			id = packet.ID(i + 1)
			open++
		}
		c.Send(env.Publish(id, "t", fmt.Sprintf("%s/q%d/%d", name, q, i), q, false, false))
	}
	for open > 0 {
		pkt, err := c.End.Receive()
		if err != nil {
			return
		}
		switch p := pkt.(type) {
		case *packet.Pubrec:
			c.Send(env.Pubrel(p.ID))
		case *packet.Puback, *packet.Pubcomp:
			open--
		}
	}
}

// checkOrder: per (publisher, published qos, received qos) the sequence numbers must increase.
func checkOrder(x *explore.X, who string, log []env.Delivery, ctx string) {
	last := map[string]int{}
	for _, d := range log {
		var pub string
		var q, n int
		parts := strings.Split(d.Payload, "/")
		if len(parts) != 3 {
			continue
		}
		pub = parts[0]
		fmt.Sscanf(parts[1], "q%d", &q)
		fmt.Sscanf(parts[2], "%d", &n)
		key := fmt.Sprintf("%s published q%d received q%d", pub, q, d.QOS)
		if prev, ok := last[key]; ok && n < prev {
			x.Failf("per-publisher-order", "out-of-order:"+ctx, "%s received message #%d after #%d (%s): %v", who, n, prev, key, payloads(log))
		} else if ok && n == prev && !d.Dup {
			x.Failf("per-publisher-order", "duplicate:"+ctx, "%s received message #%d twice without the duplicate flag (%s)", who, n, key)
		}
		last[key] = n
	}
}

func payloads(log []env.Delivery) []string {
	var s []string
	for _, d := range log {
		s = append(s, fmt.Sprintf("%s@q%d", d.Payload, d.QOS))
	}
	return s
}

func live(x *explore.X, pr params) {
	pa := patterns[vrt.Choose(len(patterns), "pattern-p1")]
	pb := patterns[vrt.Choose(len(patterns), "pattern-p2")]
	vrt.Quiet(true)
	qcap := 32
	if pr.Queue > 0 {
		qcap = pr.Queue
	}
	w := env.NewWorld(x, func(m *broker.MemoryBackend) { m.ClientInflightMessages = pr.Window; m.SessionQueueSize = qcap })
	s1 := w.NewClient("s1")
	s1.Connect(true, nil)
	s1.Send(env.Subscribe(1, packet.Subscription{Topic: "t", QOS: 2}))
	s2 := w.NewClient("s2")
	s2.Connect(true, nil)
	s2.Send(env.Subscribe(1, packet.Subscription{Topic: "t", QOS: 1}))
	p1 := w.NewClient("p1")
	p1.Connect(true, nil)
	p2 := w.NewClient("p2")
	p2.Connect(true, nil)
	w.Run(s1, s2, p1, p2)
	var l1, l2 []env.Delivery
	vrt.Quiet(false)
	go subscriber(s1, &l1)
	go subscriber(s2, &l2)
	go publisher(p1, "p1", pa[:pr.Msgs])
	go publisher(p2, "p2", pb[:pr.Msgs])
	w.Settle()
	vrt.Quiet(true)
	x.Logf("p1 %v p2 %v -> s1 %v", pa[:pr.Msgs], pb[:pr.Msgs], payloads(l1))
	x.Logf("                 -> s2 %v", payloads(l2))
	ctx := fmt.Sprintf("live:w%d", pr.Window)
	checkOrder(x, "subscriber s1 (granted QoS 2)", l1, ctx)
	checkOrder(x, "subscriber s2 (granted QoS 1)", l2, ctx)
	if len(l1) != 2*pr.Msgs || len(l2) != 2*pr.Msgs {
		x.Failf("all-delivered", "missing:"+ctx, "subscribers acknowledge everything, yet s1 received %d and s2 %d of %d messages; blocked: %v", len(l1), len(l2), 2*pr.Msgs, vrt.Blocked())
	}
	x.Note("raced")
	x.Outcome(strings.Join(payloads(l1), ","))
}

// resume: a subscriber's connection is cut with 2..window messages unacknowledged; the retransmissions on
// the resumed session must come in the order of the original transmission. The iteration order of the
// packet store's map is owned by the explorer (a deviation), which is what makes the defect reachable.
func resume(x *explore.X, pr params) {
	q := packet.QOS(1 + vrt.Choose(2, "sub-qos"))
	recs := vrt.Choose(pr.Window+1, "pubrecs-sent") // for QoS 2: how many of the deliveries got their PUBREC before the cut
	vrt.Quiet(true)
	w := env.NewWorld(x, func(m *broker.MemoryBackend) { m.ClientInflightMessages = pr.Window; m.SessionQueueSize = 32 })
	s := w.NewClient("s")
	s.NoAck = true
	s.Connect(false, nil)
	s.Send(env.Subscribe(1, packet.Subscription{Topic: "t", QOS: q}))
	h := w.NewClient("h")
	h.Connect(true, nil)
	w.Run(s, h)
	if vrt.Choose(2, "packet-ids-wrap") == 1 {
		// the subscriber's session is about to wrap its 16-bit packet id counter: ids 65534, 65535, 1, ...
		wrapped := false
		for _, e := range w.Rec.Calls("Setup", s.Name) {
			if e.Client != nil && e.Client.Session() != nil {
				if ms, ok := env.Peek(e.Client.Session(), "MemorySession").(*session.MemorySession); ok && ms != nil {
					ms.Counter = session.NewIDCounterWithNext(65534)
					wrapped = true
				}
			}
		}
		if !wrapped {
			x.Failf("setup", "no-session-counter", "the broker-side session of the subscriber could not be reached")
			return
		}
	}
	for i := 0; i < pr.Window+1; i++ {
		h.Pub("t", fmt.Sprintf("h/q%d/%d", q, i), q, false)
		w.Run(s, h)
	}
	var first []string
	for _, d := range s.Got {
		first = append(first, fmt.Sprintf("%d:%s", d.ID, d.Payload))
	}
	want := map[packet.ID]int{}
	for i, d := range s.Got {
		want[d.ID] = i
	}
	if q == 2 {
		for i := 0; i < recs && i < len(s.Got); i++ {
			s.Send(env.Pubrec(s.Got[i].ID))
		}
		w.Run(s, h)
	}
	s.Drop()
	w.Run(s, h)
	vrt.Quiet(false)
	s2 := w.NewClient("s")
	s2.NoAck = true
	s2.Connect(false, nil)
	w.Settle()
	vrt.Quiet(true)
	var got []string
	pos := -1
	for _, pkt := range s2.Drain() {
		var id packet.ID
		switch p := pkt.(type) {
		case *packet.Publish:
			if !p.Dup {
				continue // a new delivery (the message that was still queued)
			}
			id = p.ID
			got = append(got, fmt.Sprintf("PUBLISH(%d,dup)", id))
		case *packet.Pubrel:
			id = p.ID
			got = append(got, fmt.Sprintf("PUBREL(%d)", id))
		default:
			continue
		}
		if want[id] < pos {
			x.Failf("retransmission-order", fmt.Sprintf("resend-out-of-order:q%d:w%d", q, pr.Window), "original transmission order %v, retransmitted after the resume as %v", first, got)
		}
		pos = want[id]
	}
	x.Logf("qos %d window %d pubrecs %d: sent %v, retransmitted %v", q, pr.Window, recs, first, got)
	if len(got) >= 2 {
		x.Note("multi-retransmission")
	}
	x.Outcome(strings.Join(got, ","))
}

// cut: the connection of a persistent subscriber is lost at the very moment a window slot becomes free (its final
// acknowledgement and the loss race), while two more messages of the same publisher wait in the session's queue. After
// the resume the first arrivals of the messages keep the publishing order, whichever way the dequeuer, the processor
// and the loss were interleaved.
func cut(x *explore.X, pr params) {
	q := packet.QOS(1 + vrt.Choose(2, "sub-qos"))
	vrt.Quiet(true)
	w := env.NewWorld(x, func(m *broker.MemoryBackend) { m.ClientInflightMessages = pr.Window; m.SessionQueueSize = 32 })
	s := w.NewClient("s")
	s.NoAck = true
	s.Connect(false, nil)
	s.Send(env.Subscribe(1, packet.Subscription{Topic: "t", QOS: q}))
	h := w.NewClient("h")
	h.Connect(true, nil)
	w.Run(s, h)
	n := pr.Window + 2
	idx := map[string]int{}
	for i := 0; i < n; i++ {
		tag := fmt.Sprintf("m%d", i)
		idx[tag] = i
		h.Pub("t", tag, q, false)
		w.Run(s, h)
	}
	if len(s.Got) != pr.Window {
		x.Failf("setup", "window-not-filled", "expected %d deliveries before the cut, got %d", pr.Window, len(s.Got))
		return
	}
	if q == 2 {
		s.Send(env.Pubrec(s.Got[0].ID))
		w.Run(s, h)
	}
	vrt.Quiet(false)
	if q == 1 {
		s.Send(env.Puback(s.Got[0].ID))
	} else {
		s.Send(env.Pubcomp(s.Got[0].ID))
	}
	s.Drop()
	w.Settle()
	vrt.Quiet(true)
	s2 := w.NewClient("s")
	s2.Connect(false, nil)
	w.Run(s2, h)
	var order []string
	seen := map[string]bool{}
	for _, d := range append(append([]env.Delivery{}, s.Got...), s2.Got...) {
		if !seen[d.Payload] {
			seen[d.Payload] = true
			order = append(order, d.Payload)
		}
	}
	pos := -1
	for _, tag := range order {
		if idx[tag] < pos {
			x.Failf("per-publisher-order", fmt.Sprintf("reordered-across-cut:q%d:w%d", q, pr.Window), "one publisher sent m0..m%d at QoS %d; the persistent subscriber (cut while a window slot became free, then resumed) first saw them as %v", n-1, q, order)
			break
		}
		pos = idx[tag]
	}
	x.Logf("qos %d window %d: first arrivals %v", q, pr.Window, order)
	if len(s2.Got) >= 2 {
		x.Note("multi-after-resume")
	}
	x.Outcome(strings.Join(order, ","))
}

func run(r *report.Report) {
	r.Assume("2 publishers x 2-3 numbered messages (QoS patterns 000,111,222,121,202) and 2 subscribers with granted QoS 2 and 1, all autonomous threads that acknowledge as they read; windows 1-2 (quantifier: up to 8 publishers, 4 subscribers, window 10)",
		"order is compared per (publisher, published QoS, received QoS); retransmission order is compared with the order of the original transmission",
		"the iteration order of Go maps inside the code under test is an owned choice (canonical order by default, rotations as deviations); set-up runs on the default schedule",
		"the client library's callback order and the service's command order are checked by running the client harnesses of C10 and C17 with only their order clauses switched on")
	mk := func(p params) string { js, _ := json.Marshal(p); return string(js) }
	th := r.Tier == "thorough"
	type c struct {
		name  string
		p     params
		bound int
	}
	cfgs := []c{{"resume-w2", params{Mode: "resume", Window: 2}, 2}, {"resume-w3", params{Mode: "resume", Window: 3}, 2},
		{"live-w1", params{Mode: "live", Window: 1, Msgs: 2}, 1}, {"live-w2", params{Mode: "live", Window: 2, Msgs: 3}, 1},
		{"live-w1-full-queue", params{Mode: "live", Window: 1, Msgs: 3, Queue: 1}, 1},
		{"cut-w1", params{Mode: "cut", Window: 1}, 2}, {"cut-w2", params{Mode: "cut", Window: 2}, 2}}
	if th {
		cfgs = []c{{"resume-w2", params{Mode: "resume", Window: 2}, 4}, {"resume-w3", params{Mode: "resume", Window: 3}, 3}, {"resume-w4", params{Mode: "resume", Window: 4}, 3},
			{"live-w1", params{Mode: "live", Window: 1, Msgs: 3}, 2}, {"live-w2", params{Mode: "live", Window: 2, Msgs: 3}, 2},
			{"live-w1-full-queue", params{Mode: "live", Window: 1, Msgs: 3, Queue: 1}, 2},
			{"cut-w1", params{Mode: "cut", Window: 1}, 4}, {"cut-w2", params{Mode: "cut", Window: 2}, 3}, {"cut-w3", params{Mode: "cut", Window: 3}, 3}}
	}
	// client library: inbound messages reach the callback in arrival order; service commands are executed first-in first-out
	d10, d17 := 6, 5
	if th {
		d10, d17 = 8, 7
	}
	st10 := explore.Explore(explore.Config{Harness: "C10.hist", Params: fmt.Sprintf(`{"Depth":%d,"IDs":2,"QOS":[0,1],"Faults":true}`, d10), Bound: 0, Workers: report.Workers(), Deadline: r.Deadline(), OnlyClauses: []string{"callback-order"}})
	r.AddExploration("client-callback-order", "history", fmt.Sprintf("the C10 client harness (all broker scripts of depth %d, 2 ids, QoS 0/1, write faults) with only the callback-order clause", d10), st10,
		"QoS 0/1 messages reach the application callback in the order the broker sent them; non-trivial = fault/retransmission/resume events", "fault", "retransmission", "resume")
	d9 := 8
	if th {
		d9 = 10
	}
	st9 := explore.Explore(explore.Config{Harness: "C09.hist", Params: fmt.Sprintf(`{"Depth":%d,"QOS":[1,2],"Wrap":true}`, d9), Bound: 0, Workers: report.Workers(), Deadline: r.Deadline(), OnlyClauses: []string{"retransmission-order"}})
	r.AddExploration("client-retransmission-order", "history", fmt.Sprintf("the C09 client harness (all histories of depth %d, QoS 1/2, the session's id counter starting at 65534) with only the retransmission-order clause", d9), st9,
		"after every resume the client's retransmissions (PUBLISH dup / PUBREL) come in the order of the original transmissions, also across the 16-bit wrap of the packet ids; non-trivial = retransmission events", "retransmission")
	st17 := explore.Explore(explore.Config{Harness: "C17.hist", Params: fmt.Sprintf(`{"Depth":%d,"Faults":true,"Stops":true}`, d17), Bound: 0, Workers: report.Workers(), Deadline: r.Deadline(), OnlyClauses: []string{"commands-fifo"}})
	r.AddExploration("service-command-fifo", "history", fmt.Sprintf("the C17 service harness (all histories of depth %d incl. failures and Stop/Start) with only the commands-fifo clause", d17), st17,
		"the command packets the broker sees are a subsequence of the commands in issue order; non-trivial = fault/stop events", "fault", "stopped", "restarted")
	// end to end: the real client library on both sides of the real broker, connections cut and resumed
	de := 5
	if th {
		de = 7
	}
	ste := explore.Explore(explore.Config{Harness: "E2E.hist", Params: fmt.Sprintf(`{"Depth":%d,"QOS":[1,2],"Faults":true}`, de), Bound: 0, Workers: report.Workers(), Deadline: r.Deadline(), OnlyClauses: []string{"per-publisher-order", "setup"}})
	r.AddExploration("end-to-end", "history", fmt.Sprintf("real client library (publisher, subscriber) <-> real broker over codec pipes: all histories of depth %d over {publish QoS 1/2, drop / write failure / broker write failure on either connection, reconnect with the same session}, then both sides reconnect", de), ste,
		"at the subscribing application's callback: per QoS level first arrivals in publishing order (the harness' other clauses - QoS 2 exactly once, nothing lost, futures resolve - are reported by C10 and C09, which run it too); non-trivial = histories with a publish / with a fault", "published", "fault")
	ste = explore.Explore(explore.Config{Harness: "E2E.hist", Params: fmt.Sprintf(`{"Depth":%d,"QOS":[1,2],"Window":1}`, de-2), Bound: 1, Workers: report.Workers(), Deadline: r.Deadline(), OnlyClauses: []string{"per-publisher-order", "setup"}})
	r.AddExploration("end-to-end-reordered", "history", fmt.Sprintf("the same closed system (broker window 1, drops only), depth %d, with one scheduling deviation placed everywhere", de-2), ste, "as above", "published", "fault")
	for _, cf := range cfgs {
		st := explore.Explore(explore.Config{Harness: "C15.order", Params: mk(cf.p), Bound: cf.bound, Workers: report.Workers(), Deadline: r.Deadline()})
		mode := "schedule"
		tag := "raced"
		if cf.p.Mode == "resume" {
			tag = "multi-retransmission"
		}
		if cf.p.Mode == "cut" {
			tag = "multi-after-resume"
		}
		r.AddExploration(cf.name, mode, fmt.Sprintf("mode %s, window %d, session queue capacity %d (0 = 32), delay/map-order bound %d", cf.p.Mode, cf.p.Window, cf.p.Queue, cf.bound), st,
			"live: every schedule of the publish/deliver/acknowledge race within the bound (non-trivial = executions); resume: every map order / schedule of the retransmission phase (non-trivial = executions with >= 2 retransmitted packets); cut: every schedule / select choice of {final acknowledgement, connection loss, dequeuer} within the bound with window+2 messages published, order of first arrivals judged after the resume (non-trivial = executions with >= 2 deliveries after the resume)", tag)
	}
}

// Package c05: the topic tree equals a topic -> value-set map after any
// history; operations are atomic under concurrency; results are snapshots.
package c05

import (
	"fmt"
	"reflect"
	"sort"
	"strconv"
	"strings"
	"time"

	"github.com/256dpi/gomqtt/topic"

	"verif/explore"
	"verif/h/lin"
	"verif/ref"
	"verif/par"
	"verif/report"
	"verif/vrt"
)

func init() {
	report.Register("C05", report.Check{Level: "model_checking", QuickBudget: 240 * time.Second, ThoroughBudget: 25 * time.Minute, Run: run})
	explore.Register("C05.closure", func(p string) explore.Harness {
		return func(x *explore.X) {
			parts := strings.SplitN(p, "\x1f", 2)
			c := closure(parts[0])
			var path []int
			if len(parts) > 1 && parts[1] != "" {
				for _, name := range strings.Split(parts[1], " ; ") {
					for i, o := range c.Ops {
						if o == name {
							path = append(path, i)
						}
					}
				}
			}
			x.Logf("universe %s, operations: %s", parts[0], parts[1])
			for _, f := range c.Check(c.Build(path), path) {
				x.Failf(f.Clause, f.Sig, "%s", f.Msg)
			}
		}
	})
	explore.Register("C05.conc", func(string) explore.Harness { return conc })
}

/* ---------- the map model ---------- */

type model map[string][]int

func (m model) add(t string, v int) {
	for _, w := range m[t] {
		if w == v {
			return
		}
	}
	m[t] = append(m[t], v)
}
func (m model) set(t string, v int) { m[t] = []int{v} }
func (m model) remove(t string, v int) {
	var out []int
	for _, w := range m[t] {
		if w != v {
			out = append(out, w)
		}
	}
	if len(out) == 0 {
		delete(m, t)
	} else {
		m[t] = out
	}
}
func (m model) empty(t string) { delete(m, t) }
func (m model) clear(v int) {
	for t := range m {
		m.remove(t, v)
	}
}

func (m model) get(t string) []int { return m[t] }
func (m model) match(name string) []int {
	var out []int
	for f, vs := range m {
		if ref.Matches(f, name) {
			out = append(out, vs...)
		}
	}
	return out
}
func (m model) search(filter string) []int {
	var out []int
	for n, vs := range m {
		if ref.Matches(filter, n) {
			out = append(out, vs...)
		}
	}
	return out
}
func (m model) all() []int {
	var out []int
	for _, vs := range m {
		out = append(out, vs...)
	}
	return out
}
func (m model) count() int {
	n := 0
	for _, vs := range m {
		n += len(vs)
	}
	return n
}
func (m model) hasWildcardTopic() bool {
	for t := range m {
		if ref.HasWildcard(t) {
			return true
		}
	}
	return false
}

func setStr(vs []int) string {
	s := map[int]bool{}
	for _, v := range vs {
		s[v] = true
	}
	var ks []int
	for k := range s {
		ks = append(ks, k)
	}
	sort.Ints(ks)
	return fmt.Sprint(ks)
}

func implSet(vs []interface{}) (string, bool) {
	var is []int
	dup := false
	seen := map[int]bool{}
	for _, v := range vs {
		i, _ := v.(int)
		if seen[i] {
			dup = true
		}
		seen[i] = true
		is = append(is, i)
	}
	return setStr(is), dup
}

/* ---------- sequential closure ---------- */

type universe struct {
	name     string
	topics   []string
	getQ     []string
	matchQ   []string
	searchQ  []string
	wildcard bool
}

var universes = map[string]*universe{
	// stored topic filters: Get/Match/All/Count in every state; Search only in states that hold no wildcard-bearing topic
	"filters": {name: "filters", topics: []string{"a", "a/b", "a/+", "a/#", "b"}, getQ: []string{"a", "a/b", "a/+", "a/#", "b", "a/c", "c"},
		matchQ: []string{"a", "a/b", "a/c", "b", "a/b/c", "c"}, searchQ: []string{"a", "a/b", "a/+", "a/#", "#", "+", "+/+", "b", "+/#"}, wildcard: true},
	// stored topic names: Search with every kind of filter
	"names": {name: "names", topics: []string{"a", "a/b", "a/c", "a/b/c", "b"}, getQ: []string{"a", "a/b", "a/c", "a/b/c", "b", "c"},
		matchQ: []string{"a", "a/b", "a/b/c", "b"}, searchQ: []string{"a", "a/b", "a/+", "a/#", "#", "+", "+/+", "b", "+/#", "a/+/c", "a/b/#", "+/b"}},
}

type snap struct {
	what string
	live []interface{}
	copy []interface{}
}

type treeSys struct {
	u     *universe
	t     *topic.Tree
	m     model
	last  string
	snaps []snap // query results taken in the predecessor state
}

func (u *universe) ops() []string {
	var ops []string
	for _, t := range u.topics {
		for _, v := range []int{1, 2} {
			ops = append(ops, fmt.Sprintf("Add(%s,%d)", t, v), fmt.Sprintf("Set(%s,%d)", t, v), fmt.Sprintf("Remove(%s,%d)", t, v))
		}
		ops = append(ops, fmt.Sprintf("Empty(%s)", t))
	}
	ops = append(ops, "Clear(1)", "Clear(2)", "Reset()")
	return ops
}

func parseOp(op string) (name, t string, v int) {
	i := strings.Index(op, "(")
	name = op[:i]
	args := strings.Split(op[i+1:len(op)-1], ",")
	switch name {
	case "Add", "Set", "Remove":
		t = args[0]
		v, _ = strconv.Atoi(args[1])
	case "Empty":
		t = args[0]
	case "Clear":
		v, _ = strconv.Atoi(args[0])
	}
	return
}

func applyOp(t *topic.Tree, m model, op string) {
	name, tp, v := parseOp(op)
	switch name {
	case "Add":
		t.Add(tp, v)
		m.add(tp, v)
	case "Set":
		t.Set(tp, v)
		m.set(tp, v)
	case "Remove":
		t.Remove(tp, v)
		m.remove(tp, v)
	case "Empty":
		t.Empty(tp)
		m.empty(tp)
	case "Clear":
		t.Clear(v)
		m.clear(v)
	case "Reset":
		t.Reset()
		for k := range m {
			delete(m, k)
		}
	}
}

func (y *treeSys) queryAll() {
	for _, q := range y.u.getQ {
		y.t.Get(q)
	}
	for _, q := range y.u.matchQ {
		y.t.Match(q)
		y.t.MatchFirst(q)
	}
	for _, q := range y.u.searchQ {
		y.t.Search(q)
		y.t.SearchFirst(q)
	}
	y.t.All()
	y.t.Count()
}

func (y *treeSys) takeSnaps() {
	y.snaps = nil
	add := func(what string, vs []interface{}) {
		y.snaps = append(y.snaps, snap{what, vs, append([]interface{}{}, vs...)})
	}
	for _, q := range y.u.getQ {
		add("Get("+q+")", y.t.Get(q))
	}
	for _, q := range y.u.matchQ {
		add("Match("+q+")", y.t.Match(q))
	}
	for _, q := range y.u.searchQ {
		add("Search("+q+")", y.t.Search(q))
	}
	add("All()", y.t.All())
}

// dump renders the implementation state by reflection (structure, value order);
// falls back to the public String() if the private layout is not as expected.
func dump(t *topic.Tree) string {
	defer func() { recover() }()
	root := reflect.ValueOf(t).Elem().FieldByName("root")
	if !root.IsValid() {
		return "S:" + sortedLines(t.String())
	}
	var b strings.Builder
	var rec func(n reflect.Value)
	rec = func(n reflect.Value) {
		n = n.Elem()
		vals := n.FieldByName("values")
		b.WriteString("[")
		for i := 0; i < vals.Len(); i++ {
			e := vals.Index(i)
			if e.IsNil() {
				b.WriteString("nil ")
			} else {
				fmt.Fprintf(&b, "%d ", e.Elem().Int())
			}
		}
		b.WriteString("]{")
		ch := n.FieldByName("children")
		var keys []string
		for _, k := range ch.MapKeys() {
			keys = append(keys, k.String())
		}
		sort.Strings(keys)
		for _, k := range keys {
			fmt.Fprintf(&b, "%q:", k)
			rec(ch.MapIndex(reflect.ValueOf(k)))
		}
		b.WriteString("}")
	}
	rec(root)
	return b.String()
}

func sortedLines(s string) string {
	ls := strings.Split(s, "\n")
	sort.Strings(ls)
	return strings.Join(ls, "\n")
}

func (y *treeSys) check() []explore.ClauseFail {
	var fs []explore.ClauseFail
	fail := func(clause, q, format string, a ...interface{}) {
		fs = append(fs, explore.ClauseFail{Clause: clause, Sig: y.u.name + ":" + q + " after " + y.last, Msg: fmt.Sprintf(format, a...)})
	}
	// snapshots taken before the last operation must be unchanged
	for _, s := range y.snaps {
		for i := range s.copy {
			if i >= len(s.live) || s.live[i] != s.copy[i] {
				fail("snapshot", s.what, "result of %s returned before %s was altered by it: was %v, now reads %v (model contents %v)", s.what, y.last, s.copy, s.live, y.m)
				break
			}
		}
	}
	cmp := func(kind, q string, got []interface{}, want []int) {
		gs, dup := implSet(got)
		if gs != setStr(want) {
			fail("equals-map", kind+"("+q+")", "%s(%q) = %s, the map model (contents %v) answers %s", kind, q, gs, y.m, setStr(want))
		}
		if dup {
			fail("duplicate-free", kind+"("+q+")", "%s(%q) = %v contains a value twice", kind, q, got)
		}
	}
	first := func(kind, q string, got interface{}, want []int) {
		if (got == nil) != (len(want) == 0) {
			fail("equals-map", kind+"First("+q+")", "%sFirst(%q) = %v, the map model (contents %v) has %s", kind, q, got, y.m, setStr(want))
			return
		}
		if got != nil {
			ok := false
			for _, w := range want {
				if got == interface{}(w) {
					ok = true
				}
			}
			if !ok {
				fail("equals-map", kind+"First("+q+")", "%sFirst(%q) = %v is not among %s", kind, q, got, setStr(want))
			}
		}
	}
	for _, q := range y.u.getQ {
		cmp("Get", q, y.t.Get(q), y.m.get(q))
	}
	for _, q := range y.u.matchQ {
		cmp("Match", q, y.t.Match(q), y.m.match(q))
		first("Match", q, y.t.MatchFirst(q), y.m.match(q))
	}
	if !y.m.hasWildcardTopic() {
		for _, q := range y.u.searchQ {
			cmp("Search", q, y.t.Search(q), y.m.search(q))
			first("Search", q, y.t.SearchFirst(q), y.m.search(q))
		}
	}
	cmp("All", "", y.t.All(), y.m.all())
	if c := y.t.Count(); c != y.m.count() {
		fail("equals-map", "Count()", "Count() = %d, the map model (contents %v) has %d entries", c, y.m, y.m.count())
	}
	// trace-freedom: same structure as a fresh tree built from the model's contents
	fresh := topic.NewStandardTree()
	var ts []string
	for t := range y.m {
		ts = append(ts, t)
	}
	sort.Strings(ts)
	for _, t := range ts {
		for _, v := range y.m[t] {
			fresh.Add(t, v)
		}
	}
	if a, b := sortedLines(y.t.String()), sortedLines(fresh.String()); a != b {
		fail("no-trace", "String()", "the tree's structure after this history differs from a fresh tree with the same contents %v:\n%s\nvs fresh:\n%s", y.m, y.t.String(), fresh.String())
	}
	return fs
}

func closure(uname string) *explore.Closure {
	u := universes[uname]
	ops := u.ops()
	return &explore.Closure{
		Name: "C05.closure",
		Ops:  ops,
		Build: func(path []int) interface{} {
			y := &treeSys{u: u, t: topic.NewStandardTree(), m: model{}, last: "(initial)"}
			for i, o := range path {
				if i == len(path)-1 {
					y.takeSnaps()
				}
				applyOp(y.t, y.m, ops[o])
				y.last = ops[o]
				if i < len(path)-1 {
					// queries run after every step, so that any state a query leaves behind (a cache) is on the path too
					y.queryAll()
				}
			}
			return y
		},
		Key:   func(sys interface{}) string { return dump(sys.(*treeSys).t) },
		Check: func(sys interface{}, path []int) []explore.ClauseFail { return sys.(*treeSys).check() },
	}
}

/* ---------- concurrency ---------- */

type concSys struct {
	t     *topic.Tree
	snaps []snap
}

func (c *concSys) keep(what string, vs []interface{}) []interface{} {
	c.snaps = append(c.snaps, snap{what, vs, append([]interface{}{}, vs...)})
	return vs
}

func mut(name string) lin.Op {
	return lin.Op{Name: name,
		Do:  func(s interface{}) string { applyOp(s.(*concSys).t, model{}, name); return "" },
		Ref: func(m interface{}) string { applyOp(topic.NewStandardTree(), *(m.(*model)), name); return "" }}
}

func qry(name string, do func(c *concSys) []interface{}, ref func(m model) []int) lin.Op {
	return lin.Op{Name: name,
		Do: func(s interface{}) string {
			r, _ := implSet(s.(*concSys).keep(name, do(s.(*concSys))))
			return r
		},
		Ref: func(m interface{}) string { return setStr(ref(*(m.(*model)))) }}
}

var concSpec = &lin.Spec{
	New: func() interface{} {
		t := topic.NewStandardTree()
		t.Add("a", 1)
		t.Add("b", 2)
		return &concSys{t: t}
	},
	NewModel: func() interface{} { m := model{"a": {1}, "b": {2}}; return &m },
	Ops: []lin.Op{
		mut("Add(a,2)"), mut("Add(a/+,2)"), mut("Remove(a,1)"), mut("Set(a,3)"), mut("Empty(a)"), mut("Clear(2)"), mut("Reset()"),
		qry("Get(a)", func(c *concSys) []interface{} { return c.t.Get("a") }, func(m model) []int { return m.get("a") }),
		qry("Match(a)", func(c *concSys) []interface{} { return c.t.Match("a") }, func(m model) []int { return m.match("a") }),
		qry("Match(a/x)", func(c *concSys) []interface{} { return c.t.Match("a/x") }, func(m model) []int { return m.match("a/x") }),
		qry("All()", func(c *concSys) []interface{} { return c.t.All() }, func(m model) []int { return m.all() }),
		{Name: "Count()", Do: func(s interface{}) string { return fmt.Sprint(s.(*concSys).t.Count()) }, Ref: func(m interface{}) string { return fmt.Sprint((*(m.(*model))).count()) }},
	},
	Final: func(s interface{}) string { return dump(s.(*concSys).t) },
	FinalRef: func(m interface{}) string {
		// the final structure must equal SOME tree with the model's contents: compare contents through a rebuilt tree,
		// value order inside a node being history-dependent is fine, so render sets
		return ""
	},
	After: func(x *explore.X, s interface{}) {
		c := s.(*concSys)
		for _, sn := range c.snaps {
			for i := range sn.copy {
				if i >= len(sn.live) || sn.live[i] != sn.copy[i] {
					x.Failf("snapshot", "conc:"+sn.what, "a result of %s obtained by one thread was altered by a later operation of another: was %v, now reads %v", sn.what, sn.copy, sn.live)
					break
				}
			}
		}
	},
}

func init() {
	// Final is compared through the model: render final contents as sets per topic via public queries
	concSpec.Final = func(s interface{}) string {
		t := s.(*concSys).t
		var b strings.Builder
		for _, q := range []string{"a", "a/+", "b"} {
			r, _ := implSet(t.Get(q))
			fmt.Fprintf(&b, "%s=%s;", q, r)
		}
		fmt.Fprintf(&b, "count=%d", t.Count())
		return b.String()
	}
	concSpec.FinalRef = func(mi interface{}) string {
		m := *(mi.(*model))
		var b strings.Builder
		for _, q := range []string{"a", "a/+", "b"} {
			fmt.Fprintf(&b, "%s=%s;", q, setStr(m.get(q)))
		}
		fmt.Fprintf(&b, "count=%d", m.count())
		return b.String()
	}
}

var concProgs [][][]int

func progs() [][][]int {
	if concProgs == nil {
		for _, shape := range [][]int{{2, 2}, {1, 1, 1}, {2, 1}} {
			concProgs = append(concProgs, lin.Programs(len(concSpec.Ops), shape)...)
		}
	}
	return concProgs
}

func conc(x *explore.X) {
	ps := progs()
	lin.Run(x, concSpec, ps[vrt.Choose(len(ps), "program")])
}

func run(r *report.Report) {
	r.Assume("sequential histories: exhaustive closure (all reachable implementation states over the universes) instead of random long sequences",
		"in the 'filters' universe Search is compared only in states holding no wildcard-bearing topic (searching stored filters is outside MQTT's definition); the 'names' universe covers Search with every filter shape",
		"concurrency bounded to 2-3 threads x 1-2 operations, every interleaving of lock acquisitions and every map-iteration order (as deviations) explored; RWMutex without writer preference",
		"data races proper (unsynchronised accesses) are outside a cooperative scheduler's view; the snapshot clause catches the one aliasing hazard deterministically")
	for _, un := range []string{"filters", "names"} {
		c := closure(un)
		cr := c.Run(r.Deadline())
		for i := range cr.Viol {
			cr.Viol[i].Params = un + "\x1f" + cr.Viol[i].Params
		}
		r.AddSweep(report.Part{Name: "closure-" + un, Mode: "closure", Bound: fmt.Sprintf("fixpoint over %d operations on topics %v x values {1,2}; depth reached %d", len(c.Ops), universes[un].topics, cr.MaxDepth),
			Evaluations: int64(cr.Transitions), Nontrivial: int64(cr.States), States: int64(cr.States), Transitions: int64(cr.Transitions),
			Rule: "breadth-first closure over implementation states (reflection dump of the node structure incl. value order); in every state every query is compared with the map model, the structure with a fresh tree of equal contents, and all results returned in the predecessor state are re-read; non-trivial = distinct implementation states",
			Exhaustive: cr.Complete, Wall: cr.Wall, Violations: cr.NViol}, cr.Viol)
		for _, s := range cr.Samples {
			r.Sample(map[string]string{"part": "closure-" + un, "operations": s})
		}
	}
	// every history up to a fixed length without merging states: what the closure's state key cannot see (a pointer
	// cached by one particular history) cannot hide here
	for _, un := range []string{"filters", "names"} {
		depth := 3
		if r.Tier == "thorough" {
			depth = 4
		}
		c := closure(un)
		sr := c.Sequences(depth, r.Deadline(), func(gen func(emit func([]int)), work func([]int) []explore.ClauseFail, collect func([]int, []explore.ClauseFail), deadline int64) bool {
			return par.Run(gen, work, collect, deadline)
		})
		for i := range sr.Viol {
			sr.Viol[i].Params = un + "\x1f" + sr.Viol[i].Params
		}
		r.AddSweep(report.Part{Name: "histories-" + un, Mode: "sweep", Bound: fmt.Sprintf("all operation sequences of length 1..%d over %d operations (no state merging)", depth, len(c.Ops)),
			Evaluations: int64(sr.Transitions), Nontrivial: int64(sr.Transitions),
			Rule: "every sequence on a fresh tree, the same comparisons as in the closure after the last operation (queries run after every step); non-trivial = sequences",
			Exhaustive: sr.Complete, Wall: sr.Wall, Violations: sr.NViol}, sr.Viol)
	}
	r.RacePass()
	bound := 4
	if r.Tier == "thorough" {
		bound = 30
	}
	st := explore.Explore(explore.Config{Harness: "C05.conc", Bound: bound, FreeSwitch: true, Workers: report.Workers(), Deadline: r.Deadline()})
	r.AddExploration("concurrent", "schedule", fmt.Sprintf("%d programs (shapes 2x2, 1x1x1, 2x1 over %d operations forced onto topics a, a/+, b) x interleavings, preemption+map-order bound %d", len(progs()), len(concSpec.Ops), bound), st,
		"each execution is one interleaving of one program on a tree pre-filled with a->1, b->2; call/return history checked for linearizability against the map model, final contents included, results re-read at the end (snapshot clause); non-trivial = executions with >= 2 threads", "concurrent")
}

// Package all links every property harness into the mc binary.
package all

import (
	_ "verif/h/c18"
)

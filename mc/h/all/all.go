// Package all links every property harness into the mc binary.
package all

import (
	_ "verif/h/c04"
	_ "verif/h/c05"
	_ "verif/h/c07"
	_ "verif/h/c18"
	_ "verif/h/c20"
	_ "verif/h/cli"
	_ "verif/h/codec"
	_ "verif/h/conn"
	_ "verif/h/e2e"
	_ "verif/h/life"
	_ "verif/h/order"
	_ "verif/h/pubsub"
	_ "verif/h/selftest"
	_ "verif/h/subhist"
)

// Package conn holds the transport-level harnesses: C19 (concurrent sends stay
// whole, close loses nothing, no hang after close or error) and the
// connection parts of C03, on the real transport.BaseConn + packet.Stream +
// mercury.Writer over an in-memory byte carrier, and on the real wsStream /
// WebSocketConn compiled against a scripted stand-in for gorilla/websocket.
package conn

import (
	"encoding/json"
	"fmt"
	"strings"
	"time"

	"github.com/256dpi/gomqtt/packet"
	"github.com/256dpi/gomqtt/transport"

	"verif/explore"
	"verif/fakews"
	"verif/h/env"
	"verif/report"
	"verif/vrt"
	wsx "verif/wsx"
)

type c19params struct {
	Carrier string // tcp | ws
	Senders int
	Delay   int  // max write delay in ms (0 = flush every send; 10 = racy flush timer)
	Faults  bool // carrier failures
	Closer  bool
	Redelay bool // the closer first sets the write delay to 0 (configuration changes while packets are buffered)
	Block   bool // carrier writes block (back-pressure) until the carrier is closed; the receive side fails or times out
}

func init() {
	report.Register("C19", report.Check{Level: "model_checking", QuickBudget: 240 * time.Second, ThoroughBudget: 25 * time.Minute, Run: runC19})
	explore.Register("C19.race", func(p string) explore.Harness {
		var pr c19params
		json.Unmarshal([]byte(p), &pr)
		return func(x *explore.X) { c19(x, pr) }
	})
}

// mqttConn is the part of transport.Conn that BaseConn itself implements
type mqttConn interface {
	Send(pkt packet.Generic, async bool) error
	Receive() (packet.Generic, error)
	Close() error
	SetReadLimit(limit int64)
	SetReadTimeout(timeout time.Duration)
	SetMaxWriteDelay(delay time.Duration)
}

// link abstracts over the two carriers
type link struct {
	conn mqttConn
	tcp  *env.Carrier
	ws   *fakews.Conn
}

func newLink(kind string) *link {
	l := &link{}
	if kind == "ws" {
		l.ws = fakews.New(8192)
		l.conn = wsx.NewWebSocketConn(l.ws)
	} else {
		l.tcp = env.NewCarrier()
		l.conn = transport.NewBaseConn(l.tcp)
	}
	return l
}

func (l *link) written() []byte {
	if l.tcp != nil {
		return l.tcp.Written
	}
	var b []byte
	for _, m := range l.ws.Out {
		b = append(b, m...)
	}
	return b
}

func (l *link) feed(b []byte) {
	if l.tcp != nil {
		l.tcp.Feed(b)
	} else {
		l.ws.Feed(b)
	}
}

func (l *link) carrierClosed() bool {
	if l.tcp != nil {
		return l.tcp.IsClosed()
	}
	return l.ws.Closed()
}

func (l *link) deadlines() []time.Time {
	if l.tcp != nil {
		return l.tcp.Deadlines
	}
	return l.ws.Deadlines
}

// split cuts a byte log into whole packets with the library's own detector and decoder (C01/C02 judge the codec itself)
func split(b []byte) (pkts []packet.Generic, rest []byte) {
	for len(b) > 0 {
		n, t := packet.DetectPacket(b)
		if n <= 0 || n > len(b) {
			return pkts, b
		}
		p, err := t.New()
		if err != nil {
			return pkts, b
		}
		if _, err := p.Decode(b[:n]); err != nil {
			return pkts, b
		}
		pkts = append(pkts, p)
		b = b[n:]
	}
	return pkts, nil
}

type sendRec struct {
	sender, seq int
	tag         string
	async       bool
	call, ret   int
	err         error
	done        bool
}

func enc(p packet.Generic) []byte {
	b := make([]byte, p.Len())
	n, _ := p.Encode(b)
	return b[:n]
}

func c19(x *explore.X, pr c19params) {
	// per-send flags and the injected fault are environment choices
	flagBits := vrt.Choose(1<<(2*pr.Senders), "async-flags")
	fault := "none"
	if pr.Faults {
		opts := []string{"none", "write#1", "write#2", "short-write#1", "read#1", "close#1", "deadline#2"}
		fault = opts[vrt.Choose(len(opts), "fault")]
	}
	if pr.Block {
		fault = []string{"read#1", "read-timeout"}[vrt.Choose(2, "receive-failure")]
	}
	l := newLink(pr.Carrier)
	if pr.Block {
		if l.tcp != nil {
			l.tcp.Block = true
		} else {
			l.ws.Block = true
		}
	}
	l.conn.SetMaxWriteDelay(time.Duration(pr.Delay) * time.Millisecond)
	l.conn.SetReadTimeout(30 * time.Second)
	var n int
	switch {
	case strings.HasPrefix(fault, "write#"):
		fmt.Sscanf(fault, "write#%d", &n)
		if l.tcp != nil {
			l.tcp.FailWrite = n
		} else {
			l.ws.FailWriterClose = n
		}
	case strings.HasPrefix(fault, "short-write#"):
		if l.tcp != nil {
			l.tcp.FailWrite, l.tcp.ShortWrite = 1, true
		} else {
			l.ws.FailWrite = 1
		}
	case fault == "read#1":
		if l.tcp != nil {
			l.tcp.FailRead = 1
		} else {
			l.ws.FailNextReader = 1
		}
	case fault == "close#1":
		if l.tcp != nil {
			l.tcp.FailClose = 1
		} else {
			l.ws.FailClose = 1
		}
	case fault == "deadline#2":
		if l.tcp != nil {
			l.tcp.FailDeadline = 2
		} else {
			l.ws.FailDeadline = 2
		}
	}
	// something for the receiver: two whole packets are already there
	in1 := env.Publish(0, "in", "r1", 0, false, false)
	in2 := env.Puback(7)
	l.feed(enc(in1))
	l.feed(enc(in2))
	if fault == "read-timeout" {
		go func() {
			if l.tcp != nil {
				l.tcp.ExpireReadDeadline()
			} else {
				l.ws.ExpireReadDeadline()
			}
		}()
	}

	var recs []*sendRec
	for s := 0; s < pr.Senders; s++ {
		for k := 0; k < 2; k++ {
			recs = append(recs, &sendRec{sender: s, seq: k, tag: fmt.Sprintf("s%d-%d", s, k), async: flagBits&(1<<(2*s+k)) != 0})
		}
	}
	closeCalled, closeReturned := 0, 0
	for s := 0; s < pr.Senders; s++ {
		mine := recs[2*s : 2*s+2]
		go func() {
			for _, r := range mine {
				r.call = vrt.Tick()
				r.err = l.conn.Send(env.Publish(0, "out", r.tag, 0, false, false), r.async)
				r.ret = vrt.Tick()
				r.done = true
			}
		}()
	}
	var received []string
	var recvErr error
	recvDone := false
	go func() {
		for {
			p, err := l.conn.Receive()
			if err != nil {
				recvErr = err
				recvDone = true
				return
			}
			received = append(received, env.Short(p))
		}
	}()
	if pr.Closer {
		go func() {
			if pr.Redelay {
				l.conn.SetMaxWriteDelay(0)
			}
			closeCalled = vrt.Tick()
			l.conn.Close()
			closeReturned = vrt.Tick()
		}()
	}
	vrt.Quiesce()
	ctx := fmt.Sprintf("%s:d%d:%s", pr.Carrier, pr.Delay, fault)
	// nothing may hang: every Send returned; with a closer (or a fatal fault) the Receive returned too
	for _, r := range recs {
		if !r.done {
			x.Failf("no-hang", "send-blocked:"+ctx, "Send(%s, async=%v) has not returned at quiescence; blocked: %v", r.tag, r.async, vrt.Blocked())
			return
		}
	}
	if pr.Closer && closeReturned == 0 {
		x.Failf("no-hang", "close-blocked:"+ctx, "Close has not returned at quiescence; blocked: %v", vrt.Blocked())
		return
	}
	if pr.Block && !recvDone {
		x.Failf("no-hang", "receive-blocked:"+ctx, "the carrier's read side failed (%s) while a sender is blocked by back-pressure, and Receive has not returned; blocked: %v", fault, vrt.Blocked())
		return
	}
	if pr.Closer && !recvDone {
		x.Failf("close-unblocks-receive", "receive-blocked-after-close:"+ctx, "Close returned but the pending Receive is still blocked (carrier closed=%v)", l.carrierClosed())
	}
	anySendErr := false
	for _, r := range recs {
		if r.err != nil {
			anySendErr = true
		}
	}
	if anySendErr && !recvDone {
		x.Failf("no-hang", "receive-blocked-after-send-error:"+ctx, "a Send returned an error but the pending Receive is still blocked (carrier closed=%v): after a send error no call may block", l.carrierClosed())
	}
	if (anySendErr || recvDone) && !l.carrierClosed() {
		x.Failf("error-closes-carrier", "carrier-open-after-error:"+ctx, "a Send or Receive failed (receive error: %v) but the carrier was not closed", recvErr)
	}
	// without a closer or fault the delayed flush must still happen: let the flush timer run, then everything accepted is on the wire
	if !pr.Closer && fault == "none" {
		l.conn.Close()
	}
	// the wire holds whole packets only, per sender in send order
	pkts, rest := split(l.written())
	wroteFault := strings.HasPrefix(fault, "write") || strings.HasPrefix(fault, "short")
	if len(rest) > 0 && !wroteFault {
		x.Failf("packets-whole", "torn-packet:"+ctx, "the bytes on the wire do not split into whole packets: % x left over after %d packets", rest, len(pkts))
	}
	last := map[int]int{}
	onWire := map[string]int{}
	for _, p := range pkts {
		pub, ok := p.(*packet.Publish)
		if !ok {
			x.Failf("packets-whole", "foreign-packet:"+ctx, "a packet that was never sent is on the wire: %s", env.Short(p))
			continue
		}
		tag := string(pub.Message.Payload)
		onWire[tag]++
		var s, k int
		if _, err := fmt.Sscanf(tag, "s%d-%d", &s, &k); err != nil {
			x.Failf("packets-whole", "garbled-packet:"+ctx, "a packet with payload %q is on the wire", tag)
			continue
		}
		if prev, ok := last[s]; ok && k < prev {
			x.Failf("sender-order", "sender-order:"+ctx, "packets of sender %d are on the wire out of order", s)
		}
		last[s] = k
		if onWire[tag] > 1 {
			x.Failf("packets-whole", "duplicated-packet:"+ctx, "packet %s is on the wire %d times", tag, onWire[tag])
		}
	}
	// lossless close: every Send that returned nil before Close was called is on the wire
	if fault == "none" {
		for _, r := range recs {
			accepted := r.err == nil && (closeCalled == 0 || r.ret < closeCalled)
			if accepted && onWire[r.tag] == 0 {
				x.Failf("close-loses-nothing", "accepted-send-lost:"+ctx+fmt.Sprintf(":async=%v", r.async), "Send(%s, async=%v) returned nil at t=%d, before Close was called (t=%d), but the packet never reached the carrier", r.tag, r.async, r.ret, closeCalled)
			}
		}
	}
	// what was received is what had arrived, in order; the read deadline is re-armed after every packet
	want := []string{env.Short(in1), env.Short(in2)}
	for i, g := range received {
		if i >= len(want) || g != want[i] {
			x.Failf("receive-intact", "received-wrong:"+ctx, "received %v, the carrier held %v", received, want)
			break
		}
	}
	if fault == "none" {
		d := l.deadlines()
		if len(d) < 1+len(received) {
			x.Failf("deadline-rearmed", "deadline-not-rearmed:"+ctx, "%d packets were received but the read deadline was set only %d times (once for SetReadTimeout, once per packet)", len(received), len(d))
		}
		for _, t := range d {
			if t.IsZero() {
				x.Failf("deadline-rearmed", "deadline-cleared:"+ctx, "a read timeout of 30 s is configured but the deadline was cleared")
			}
		}
	}
	// after close / error: flushed sends fail at once; buffered sends fail at the latest on the call after the flush timer ran
	if l.carrierClosed() {
		if err := l.conn.Send(env.Publish(0, "out", "late-sync", 0, false, false), false); err == nil {
			x.Failf("fails-after-close", "sync-send-ok-after-close:"+ctx, "a flushed Send succeeded although the connection had been closed")
		}
		e1 := l.conn.Send(env.Publish(0, "out", "late-async-1", 0, false, false), true)
		vrt.Quiesce() // lets a racy flush timer run
		e2 := l.conn.Send(env.Publish(0, "out", "late-async-2", 0, false, false), true)
		if e1 == nil && e2 == nil {
			vrt.Quiesce()
			e3 := l.conn.Send(env.Publish(0, "out", "late-async-3", 0, false, false), true)
			if e3 == nil {
				x.Failf("fails-after-close", "async-send-ok-after-close:"+ctx, "three buffered Sends in a row succeeded although the connection had been closed and the flush delay had elapsed")
			}
		}
		done := false
		go func() {
			_, err := l.conn.Receive()
			done = err != nil || true
		}()
		vrt.Quiesce()
		if !done {
			x.Failf("no-hang", "receive-blocks-after-close:"+ctx, "Receive blocks on a closed connection")
		}
	}
	x.Note("raced")
	var ws []string
	for _, p := range pkts {
		if pub, ok := p.(*packet.Publish); ok {
			ws = append(ws, string(pub.Message.Payload))
		}
	}
	x.Outcome(strings.Join(ws, ",") + "|" + fmt.Sprint(len(received)))
}

func runC19(r *report.Report) {
	r.Assume("real transport.BaseConn + packet.Stream + mercury.Writer over an in-memory byte carrier, and the real wsStream/WebSocketConn compiled against a scripted stand-in for gorilla/websocket (its documented reader/writer contract); kernel sockets and gorilla's frame parser are outside the model",
		"2-3 senders x 2 packets (quantifier: 1-16), every flushed/buffered mix, one closer, one receiver; the 10 ms flush timer is a thread that may run at any point (racy timer)",
		"carrier faults: the 1st/2nd write failing (optionally after a short write), the 1st read failing, Close failing, the 2nd SetReadDeadline failing",
		"the wire log is split with the library's own DetectPacket/Decode (the codec is judged by C01/C02)")
	mk := func(p c19params) string { js, _ := json.Marshal(p); return string(js) }
	type c struct {
		name  string
		p     c19params
		bound int
	}
	b := 2
	b10 := 2
	if r.Tier == "thorough" {
		b10 = 3
	}
	cfgs := []c{
		{"tcp-2senders-closer-delay10", c19params{Carrier: "tcp", Senders: 2, Delay: 10, Closer: true}, b10},
		{"tcp-2senders-closer-delay0", c19params{Carrier: "tcp", Senders: 2, Delay: 0, Closer: true}, b},
		{"tcp-2senders-faults", c19params{Carrier: "tcp", Senders: 2, Delay: 10, Faults: true, Closer: true}, b - 1},
		{"tcp-2senders-nocloser", c19params{Carrier: "tcp", Senders: 2, Delay: 10}, b},
		{"tcp-2senders-faults-nocloser", c19params{Carrier: "tcp", Senders: 2, Delay: 10, Faults: true}, b - 1},
		{"ws-2senders-faults-nocloser", c19params{Carrier: "ws", Senders: 2, Delay: 10, Faults: true}, b - 1},
		{"tcp-2senders-closer-redelay", c19params{Carrier: "tcp", Senders: 2, Delay: 10, Closer: true, Redelay: true}, b - 1},
		{"tcp-backpressure-receive-fails", c19params{Carrier: "tcp", Senders: 2, Delay: 10, Block: true}, b},
		{"ws-backpressure-receive-fails", c19params{Carrier: "ws", Senders: 2, Delay: 10, Block: true}, b - 1},
		{"ws-2senders-closer", c19params{Carrier: "ws", Senders: 2, Delay: 10, Closer: true}, b},
		{"ws-2senders-faults", c19params{Carrier: "ws", Senders: 2, Delay: 10, Faults: true, Closer: true}, b - 1},
	}
	if r.Tier == "thorough" {
		cfgs = append(cfgs, c{"tcp-3senders-closer", c19params{Carrier: "tcp", Senders: 3, Delay: 10, Closer: true}, 2}, c{"ws-3senders-closer", c19params{Carrier: "ws", Senders: 3, Delay: 10, Closer: true}, 2})
	}
	for _, cf := range cfgs {
		st := explore.Explore(explore.Config{Harness: "C19.race", Params: mk(cf.p), Bound: cf.bound, FreeSwitch: true, Workers: report.Workers(), Deadline: r.Deadline()})
		r.AddExploration(cf.name, "schedule", fmt.Sprintf("%s carrier, %d senders x 2 packets x every async/sync mix, closer=%v (resets the write delay first=%v), flush delay %d ms, carrier faults=%v, back-pressure=%v; every schedule within preemption bound %d", cf.p.Carrier, cf.p.Senders, cf.p.Closer, cf.p.Redelay, cf.p.Delay, cf.p.Faults, cf.p.Block, cf.bound), st,
			"one execution = one interleaving of senders, closer, receiver and flush timer; wire log / return values / carrier state compared at quiescence; non-trivial = executions", "raced")
	}
	r.RacePass()
}

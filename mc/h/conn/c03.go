package conn

import (
	"bytes"
	"encoding/json"
	"fmt"
	"io"
	"strings"
	"time"

	"github.com/256dpi/gomqtt/packet"

	"verif/explore"
	"verif/h/env"
	"verif/report"
	"verif/vrt"
)

type c03params struct {
	Mode   string // decoder | conn
	SeqLen int
	Full   bool
}

func init() {
	report.Register("C03", report.Check{Level: "model_checking", QuickBudget: 240 * time.Second, ThoroughBudget: 25 * time.Minute, Run: runC03})
	explore.Register("C03.frame", func(p string) explore.Harness {
		var pr c03params
		json.Unmarshal([]byte(p), &pr)
		return func(x *explore.X) {
			if pr.Mode == "decoder" {
				c03decoder(x, pr)
			} else if pr.Mode == "decoder-big" {
				c03big(x)
			} else {
				c03conn(x, pr)
			}
		}
	})
}

const c03limit = 5000

// catalogue: one packet per type, plus PUBLISHes around the 4096-byte bufio boundary and around the read limit
func catalogue() []packet.Generic {
	pubOfSize := func(n int, tag byte) packet.Generic {
		// remaining length = 2+1+payload; total = 1 + varintlen + rl
		for pl := n - 8; pl <= n; pl++ {
			if pl < 0 {
				continue
			}
			p := env.Publish(0, "t", strings.Repeat(string(rune(tag)), pl), 0, false, false)
			if p.Len() == n {
				return p
			}
		}
		panic("no publish of that size")
	}
	will := &packet.Message{Topic: "w", Payload: []byte("bye"), QOS: 1, Retain: true}
	con := env.Connect("client", false, will)
	con.Username, con.Password, con.KeepAlive = "user", "pass", 30
	ca := packet.NewConnack()
	ca.SessionPresent = true
	sa := packet.NewSuback()
	sa.ID = 7
	sa.ReturnCodes = []packet.QOS{0, 1, 2, packet.QOSFailure}
	ua := packet.NewUnsuback()
	ua.ID = 9
	return []packet.Generic{
		con, ca, env.Publish(0, "a/b", "p0", 0, true, false), env.Publish(65535, "a/b", "", 2, false, true), env.Puback(1), env.Pubrec(256), env.Pubrel(65535), env.Pubcomp(2),
		env.Subscribe(3, packet.Subscription{Topic: "a/#", QOS: 1}, packet.Subscription{Topic: "+", QOS: 2}), sa, env.Unsubscribe(4, "a/#", "b"), ua,
		packet.NewPingreq(), packet.NewPingresp(), packet.NewDisconnect(),
		pubOfSize(4095, 'x'), pubOfSize(4096, 'y'), pubOfSize(4097, 'z'),
		pubOfSize(c03limit-1, 'l'), pubOfSize(c03limit, 'm'), pubOfSize(c03limit+1, 'n'),
	}
}

// a reader that hands out the stream in the given chunks (the last chunk size repeats), counting what it gave out
type fragReader struct {
	data   []byte
	cuts   []int // absolute cut positions (sorted); a Read never crosses the next cut
	chunk  int   // if > 0: uniform chunk size instead of cuts
	pos    int
	handed int
	eofErr error
}

func (r *fragReader) Read(p []byte) (int, error) {
	if r.pos >= len(r.data) {
		return 0, io.EOF
	}
	n := len(p)
	if r.chunk > 0 && n > r.chunk {
		n = r.chunk
	}
	if r.chunk == 0 {
		for _, c := range r.cuts {
			if c > r.pos {
				if r.pos+n > c {
					n = c - r.pos
				}
				break
			}
		}
	}
	if r.pos+n > len(r.data) {
		n = len(r.data) - r.pos
	}
	copy(p, r.data[r.pos:r.pos+n])
	r.pos += n
	r.handed += n
	return n, nil
}

// decodeAll reads packets until an error; it returns the encodings of what was read and the final error.
func decodeAll(r io.Reader, limit int64) (got [][]byte, err error) {
	d := packet.NewDecoder(r)
	d.SetReadLimit(limit)
	for {
		p, e := d.Read()
		if e != nil {
			return got, e
		}
		got = append(got, enc(p))
	}
}

func seqName(seq []packet.Generic) string {
	var s []string
	for _, p := range seq {
		n := env.Short(p)
		if len(n) > 40 {
			n = fmt.Sprintf("%s...(%d bytes)", n[:24], p.Len())
		}
		s = append(s, n)
	}
	return strings.Join(s, " ")
}

// checkStream: one fragmentation of one stream (possibly truncated at cut), decoded with the library's stream decoder.
func checkStream(x *explore.X, seq []packet.Generic, encs [][]byte, stream []byte, fr *fragReader, how string, limit int64) {
	got, err := decodeAll(fr, limit)
	// the packets that are completely contained in the (possibly truncated) stream, up to the first one above the limit
	var want [][]byte
	off := 0
	var wantErr string
	for _, e := range encs {
		if limit > 0 && int64(len(e)) > limit {
			if off+5 <= len(stream) || off+len(e) <= len(stream) {
				wantErr = "limit"
			} else if off < len(stream) {
				wantErr = "limit-or-truncated"
			}
			break
		}
		if off+len(e) > len(stream) {
			if off < len(stream) {
				wantErr = "truncated"
			}
			break
		}
		want = append(want, e)
		off += len(e)
	}
	sig := how
	if len(got) != len(want) {
		x.Failf("same-packets", "packet-count:"+sig, "stream of [%s] (%d bytes, %s): the decoder returned %d packets, %d are completely contained (error: %v)", seqName(seq), len(stream), how, len(got), len(want), err)
		return
	}
	for i := range got {
		if !bytes.Equal(got[i], want[i]) {
			x.Failf("same-packets", "packet-differs:"+sig, "stream of [%s] (%s): packet #%d decoded differently", seqName(seq), how, i+1)
			return
		}
	}
	switch wantErr {
	case "":
		if err != io.EOF {
			x.Failf("clean-eof", "eof-kind:"+sig, "stream of [%s] ends on a packet boundary (%s) but the decoder reported %v instead of io.EOF", seqName(seq), how, err)
		}
	case "truncated":
		if err == nil || err == io.EOF {
			x.Failf("truncation-is-error", "truncated-eof:"+sig, "stream of [%s] ends inside a packet (%s) but the decoder reported %v", seqName(seq), how, err)
		}
	case "limit":
		if err != packet.ErrReadLimitExceeded {
			x.Failf("read-limit", "limit-not-enforced:"+sig, "stream of [%s] (%s): a packet above the read limit of %d gave %v", seqName(seq), how, limit, err)
		}
		// refused before it is buffered: nothing beyond one buffer fill was pulled from the source
		if fr.handed > off+4096 {
			x.Failf("read-limit", "limit-after-buffering:"+sig, "a packet above the read limit was refused only after %d bytes had been pulled from the source (%d belong to earlier packets)", fr.handed, off)
		}
	}
}

func c03decoder(x *explore.X, pr c03params) {
	cat := catalogue()
	var seq []packet.Generic
	n := 1 + vrt.Choose(pr.SeqLen, "sequence-length")
	for i := 0; i < n; i++ {
		seq = append(seq, cat[vrt.Choose(len(cat), "packet")])
	}
	var encs [][]byte
	var stream []byte
	for _, p := range seq {
		e := enc(p)
		encs = append(encs, e)
		stream = append(stream, e...)
	}
	x.Logf("sequence: %s (%d bytes)", seqName(seq), len(stream))
	count := 0
	run := func(fr *fragReader, how string, s []byte, limit int64) {
		if x.Failed() {
			return
		}
		count++
		checkStream(x, seq, encs, s, fr, how, limit)
	}
	for _, limit := range []int64{0, c03limit} {
		ls := fmt.Sprintf("limit=%d", limit)
		// uniform chunk sizes
		for _, c := range []int{1, 2, 3, 4, 5, 6, 7, 8, 9, 13, 17, 4095, 4096, 4097, 1 << 20} {
			run(&fragReader{data: stream, chunk: c}, fmt.Sprintf("chunks of %d, %s", c, ls), stream, limit)
		}
		// every composition for short streams; every single cut (and pairs near boundaries) for longer ones
		if len(stream) <= 14 {
			for m := 0; m < 1<<(len(stream)-1); m++ {
				var cuts []int
				for b := 0; b < len(stream)-1; b++ {
					if m&(1<<b) != 0 {
						cuts = append(cuts, b+1)
					}
				}
				run(&fragReader{data: stream, cuts: cuts}, fmt.Sprintf("cuts %v, %s", cuts, ls), stream, limit)
			}
		} else {
			interesting := map[int]bool{}
			off := 0
			for _, e := range encs {
				for d := -6; d <= 6; d++ {
					interesting[off+d] = true
					interesting[off+len(e)+d] = true
				}
				off += len(e)
			}
			for k := 4090; k < len(stream); k += 4096 {
				for d := 0; d <= 12; d++ {
					interesting[k+d] = true
				}
			}
			var pts []int
			for c := 1; c < len(stream); c++ {
				if interesting[c] || len(stream) <= 200 || pr.Full && c%97 == 0 {
					pts = append(pts, c)
				}
			}
			for _, c := range pts {
				run(&fragReader{data: stream, cuts: []int{c}}, fmt.Sprintf("cut at %d, %s", c, ls), stream, limit)
			}
			if len(pts) <= 80 || pr.Full {
				for i, a := range pts {
					for _, b := range pts[i+1:] {
						if b-a <= 8 || pr.Full && len(pts) <= 160 {
							run(&fragReader{data: stream, cuts: []int{a, b}}, fmt.Sprintf("cuts %d,%d, %s", a, b, ls), stream, limit)
						}
					}
				}
			}
		}
		// truncation at every byte position (every position of short streams, positions around boundaries of long ones)
		for t := 0; t < len(stream); t++ {
			if len(stream) > 300 {
				near := false
				off := 0
				for _, e := range encs {
					if (t >= off-3 && t <= off+8) || (t >= off+len(e)-8 && t <= off+len(e)) {
						near = true
					}
					off += len(e)
				}
				if !near && t%509 != 0 {
					continue
				}
			}
			run(&fragReader{data: stream[:t], chunk: 7}, fmt.Sprintf("truncated at %d, chunks of 7, %s", t, ls), stream[:t], limit)
			run(&fragReader{data: stream[:t], chunk: 1 << 20}, fmt.Sprintf("truncated at %d, one chunk, %s", t, ls), stream[:t], limit)
		}
	}
	for i := 0; i < count; i++ {
		x.Note("fragmentation")
	}
	x.Event(fmt.Sprintf("%d:%d", len(seq), len(stream)))
}

// c03big: packets whose remaining length sits on the 3-/4-byte boundary of the variable-length integer (2 MiB) go through
// the stream decoder whole, in a few fragmentations and truncations.
func c03big(x *explore.X) {
	rl := []int{2097151, 2097152, 2097153}[vrt.Choose(3, "remaining-length")]
	p := env.Publish(0, "t", strings.Repeat("B", rl-3), 0, false, false)
	seq := []packet.Generic{p, packet.NewPingreq()}
	encs := [][]byte{enc(p), enc(seq[1])}
	stream := append(append([]byte{}, encs[0]...), encs[1]...)
	x.Logf("PUBLISH with remaining length %d (%d bytes) + PINGREQ", rl, len(stream))
	for _, c := range []int{1 << 22, 65536, 4096, 4097} {
		checkStream(x, seq, encs, stream, &fragReader{data: stream, chunk: c}, fmt.Sprintf("rl=%d chunks of %d", rl, c), 0)
		x.Note("fragmentation")
	}
	for _, cut := range []int{1, 2, 3, 4, 5, 6} {
		checkStream(x, seq, encs, stream, &fragReader{data: stream, cuts: []int{cut}}, fmt.Sprintf("rl=%d cut at %d", rl, cut), 0)
		x.Note("fragmentation")
	}
	for _, t := range []int{1, 2, 3, 4, 5, 6, len(encs[0]) - 1, len(encs[0]), len(encs[0]) + 1} {
		checkStream(x, seq, encs, stream[:t], &fragReader{data: stream[:t], chunk: 1 << 22}, fmt.Sprintf("rl=%d truncated at %d", rl, t), 0)
		x.Note("fragmentation")
	}
	checkStream(x, seq, encs, stream, &fragReader{data: stream, chunk: 4096}, fmt.Sprintf("rl=%d limit 1 MiB", rl), 1<<20)
	x.Event(fmt.Sprint(rl))
}

// c03conn: the same packets through the real connection types: BaseConn over the byte carrier (sender side with every
// flushed/buffered mix and a racy flush timer; receiver side with chunked reads) and WebSocketConn over the fake websocket
// (messages carrying fractions of a packet, several packets, or nothing).
func c03conn(x *explore.X, pr c03params) {
	cat := catalogue()[:18] // without the read-limit trio (the limit is exercised on the receiving side below)
	var seq []packet.Generic
	n := 1 + vrt.Choose(pr.SeqLen, "sequence-length")
	for i := 0; i < n; i++ {
		seq = append(seq, cat[vrt.Choose(len(cat), "packet")])
	}
	flags := vrt.Choose(1<<n, "async-flags")
	kind := []string{"tcp", "ws"}[vrt.Choose(2, "carrier")]
	delay := []int{0, 10}[vrt.Choose(2, "flush-delay")]
	var want []byte
	var encs [][]byte
	for _, p := range seq {
		encs = append(encs, enc(p))
		want = append(want, enc(p)...)
	}
	x.Logf("%s, delay %d ms, flags %b: %s", kind, delay, flags, seqName(seq))
	ctx := fmt.Sprintf("%s:d%d", kind, delay)
	// sender
	l := newLink(kind)
	l.conn.SetMaxWriteDelay(time.Duration(delay) * time.Millisecond)
	for i, p := range seq {
		if err := l.conn.Send(p, flags&(1<<i) != 0); err != nil {
			x.Failf("send-ok", "send-error:"+ctx, "Send #%d of [%s] failed: %v", i+1, seqName(seq), err)
			return
		}
	}
	l.conn.Close()
	vrt.Quiesce()
	if got := l.written(); !bytes.Equal(got, want) {
		x.Failf("wire-exact", "wire-differs:"+ctx+fmt.Sprintf(":flags=%b", flags), "[%s] sent with async flags %b: the %d bytes on the wire are not the concatenation of the packets' encodings (%d bytes); first difference at %d", seqName(seq), flags, len(got), len(want), firstDiff(got, want))
		return
	}
	// receiver: the wire bytes arrive in fragments
	vrt.Quiet(true)
	frag := vrt.Choose(6, "fragmentation")
	r := newLink(kind)
	r.conn.SetReadLimit(c03limit)
	var pieces [][]byte
	switch frag {
	case 0:
		pieces = [][]byte{want}
	case 1:
		for i := 0; i < len(want); i += 7 {
			pieces = append(pieces, want[i:min(i+7, len(want))])
		}
	case 2:
		for i := 0; i < len(want); i += 4096 {
			pieces = append(pieces, want[i:min(i+4096, len(want))])
		}
	case 3:
		// one piece per packet
		pieces = encs
	case 4:
		// split inside every packet header
		off := 0
		for _, e := range encs {
			pieces = append(pieces, want[off:off+1], want[off+1:off+len(e)])
			off += len(e)
		}
	case 5:
		// pairs of packets glued together, with empty pieces in between
		for i := 0; i < len(encs); i += 2 {
			b := append([]byte{}, encs[i]...)
			if i+1 < len(encs) {
				b = append(b, encs[i+1]...)
			}
			pieces = append(pieces, b, nil)
		}
	}
	for _, p := range pieces {
		if r.tcp != nil {
			if len(p) > 0 {
				r.tcp.Feed(p)
			}
		} else {
			r.ws.Feed(p)
		}
	}
	if r.tcp != nil {
		r.tcp.Chunk = []int{0, 1, 5, 4096}[frag%4]
		r.tcp.PeerClose()
	} else {
		r.ws.MaxRead = []int{0, 1, 5, 4096}[frag%4]
		r.ws.PeerClose()
	}
	var got [][]byte
	var rerr error
	for {
		p, err := r.conn.Receive()
		if err != nil {
			rerr = err
			break
		}
		got = append(got, enc(p))
	}
	if len(got) != len(encs) {
		x.Failf("same-packets", fmt.Sprintf("conn-packet-count:%s:frag%d", kind, frag), "[%s] delivered in fragmentation %d over %s: %d of %d packets were received (error: %v)", seqName(seq), frag, kind, len(got), len(encs), rerr)
		return
	}
	for i := range got {
		if !bytes.Equal(got[i], encs[i]) {
			x.Failf("same-packets", fmt.Sprintf("conn-packet-differs:%s:frag%d", kind, frag), "[%s] over %s: packet #%d was received differently", seqName(seq), kind, i+1)
			return
		}
	}
	if rerr != io.EOF {
		x.Failf("clean-eof", fmt.Sprintf("conn-eof-kind:%s", kind), "the peer closed on a packet boundary but Receive reported %v", rerr)
	}
	x.Note("fragmentation")
	x.Event(fmt.Sprintf("%s:%d:%d", kind, len(seq), frag))
}

func firstDiff(a, b []byte) int {
	for i := 0; i < len(a) && i < len(b); i++ {
		if a[i] != b[i] {
			return i
		}
	}
	return min(len(a), len(b))
}

func min(a, b int) int {
	if a < b {
		return a
	}
	return b
}

func runC03(r *report.Report) {
	r.Assume("packet catalogue: one packet per type (all 14) plus PUBLISHes of encoded size 4095/4096/4097 (bufio boundary) and limit-1/limit/limit+1 (read limit 5000); sequences of 1-2 (thorough 3) packets",
		"fragmentations: uniform chunks of 1..9,13,17,4095,4096,4097 bytes and unfragmented; every composition (all cut sets) for streams <= 14 bytes, every single cut near packet / 4096 boundaries (every cut for streams <= 200 bytes) and pairs of close cuts for longer ones; truncation at every position near boundaries (every position for short streams)",
		"connections: real BaseConn over the byte carrier and real WebSocketConn over the scripted websocket stand-in; sender side with every flushed/buffered mix, flush delay 0 and 10 ms (timer racing), receiver side with 6 fragmentations incl. split headers, glued packets and empty websocket messages; real TCP / gorilla framing are outside the model",
		"sent and received packets are compared through their encodings")
	mk := func(p c03params) string { js, _ := json.Marshal(p); return string(js) }
	n := 2
	if r.Tier == "thorough" {
		n = 3
	}
	st := explore.Explore(explore.Config{Harness: "C03.frame", Params: mk(c03params{Mode: "decoder", SeqLen: n, Full: r.Tier == "thorough"}), Bound: 0, MaxSteps: 1 << 30, Workers: report.Workers(), Deadline: r.Deadline()})
	r.AddExploration("stream-decoder", "sweep", fmt.Sprintf("all sequences of 1-%d packets over a 21-packet catalogue x all listed fragmentations and truncations x read limit off/5000", n), st,
		"one execution = one packet sequence with all its fragmentations; non-trivial = fragmentations decoded (counted)", "fragmentation")
	st = explore.Explore(explore.Config{Harness: "C03.frame", Params: mk(c03params{Mode: "decoder-big"}), Bound: 0, MaxSteps: 1 << 30, Workers: 3, Deadline: r.Deadline()})
	r.AddExploration("stream-decoder-2MiB", "sweep", "PUBLISH packets with remaining length 2097151 / 2097152 / 2097153 (3- vs 4-byte length encoding) followed by a PINGREQ, 4 chunkings, cuts inside the header, 9 truncations, read limit 1 MiB", st,
		"one execution = one size with its fragmentations; non-trivial = fragmentations decoded", "fragmentation")
	st = explore.Explore(explore.Config{Harness: "C03.frame", Params: mk(c03params{Mode: "conn", SeqLen: n}), Bound: 2, FreeSwitch: true, Workers: report.Workers(), Deadline: r.Deadline()})
	r.AddExploration("connections", "schedule", fmt.Sprintf("all sequences of 1-%d packets x every async/sync mix x {tcp, ws} x flush delay {0,10 ms} with the flush timer racing (preemption bound 2), then received back through 6 fragmentations", n), st,
		"one execution = one send schedule + one receive fragmentation; wire bytes compared with the concatenated encodings, received packets with the sent ones; non-trivial = executions completed", "fragmentation")
}

// Package c20: nothing is processed before an accepted CONNECT; every request
// gets exactly its response.
package c20

import (
	"encoding/json"
	"fmt"
	"sort"
	"strings"
	"time"

	"github.com/256dpi/gomqtt/broker"
	"github.com/256dpi/gomqtt/packet"

	"verif/explore"
	"verif/h/env"
	"verif/report"
	"verif/vrt"
)

type params struct {
	Len       int
	Pipelined bool
	Preconn   bool // a valid CONNECT is sent (and settled) before the sequence starts
	Bystander bool // another connection has pipelined SUBSCRIBEs and does not read its replies
	Real      bool // the broker reads / writes through the real transport.BaseConn over a byte-stream view of the pipe
}

func init() {
	report.Register("C20", report.Check{Level: "model_checking", QuickBudget: 240 * time.Second, ThoroughBudget: 30 * time.Minute, Run: run})
	explore.Register("C20.seq", func(p string) explore.Harness {
		var pr params
		json.Unmarshal([]byte(p), &pr)
		return func(x *explore.X) { sequence(x, pr) }
	})
}

type item struct {
	name string
	mk   func() packet.Generic
}

func withCreds(c *packet.Connect, u, p string) *packet.Connect { c.Username, c.Password = u, p; return c }

func alphabet() []item {
	subs := func(n int) []packet.Subscription {
		var s []packet.Subscription
		qs := []packet.QOS{2, 0, 1, 2, 1, 0, 2, 1}
		for i := 0; i < n; i++ {
			s = append(s, packet.Subscription{Topic: fmt.Sprintf("f/%d", i), QOS: qs[i]})
		}
		return s
	}
	will := &packet.Message{Topic: "w", Payload: []byte("will"), QOS: 1, Retain: true}
	its := []item{
		{"CONNECT(ok)", func() packet.Generic { return withCreds(env.Connect("c", true, nil), "u", "pw") }},
		{"CONNECT(ok,will,unclean)", func() packet.Generic { return withCreds(env.Connect("c", false, will.Copy()), "u", "pw") }},
		{"CONNECT(badpw,will)", func() packet.Generic { return withCreds(env.Connect("c", true, will.Copy()), "u", "nope") }},
		{"CONNECT(nouser)", func() packet.Generic { return env.Connect("d", false, nil) }},
		{"CONNECT(unknown-user,no-password,will)", func() packet.Generic { return withCreds(env.Connect("c", true, will.Copy()), "stranger", "") }},
		{"CONNECT(unknown-user,known-password)", func() packet.Generic { return withCreds(env.Connect("c", true, nil), "stranger", "pw") }},
		{"CONNECT(known-user,no-password)", func() packet.Generic { return withCreds(env.Connect("c", false, nil), "u", "") }},
		{"CONNACK", func() packet.Generic { return packet.NewConnack() }},
		{"PUBLISH(q0)", func() packet.Generic { return env.Publish(0, "x", "p0", 0, false, false) }},
		{"PUBLISH(q1,7)", func() packet.Generic { return env.Publish(7, "x", "p1", 1, false, false) }},
		{"PUBLISH(q2,65535)", func() packet.Generic { return env.Publish(65535, "x", "p2", 2, true, false) }},
		{"PUBACK(7)", func() packet.Generic { return env.Puback(7) }},
		{"PUBREC(7)", func() packet.Generic { return env.Pubrec(7) }},
		{"PUBREL(65535)", func() packet.Generic { return env.Pubrel(65535) }},
		{"PUBREL(1)", func() packet.Generic { return env.Pubrel(1) }},
		{"PUBCOMP(7)", func() packet.Generic { return env.Pubcomp(7) }},
		{"SUBSCRIBE(1,1)", func() packet.Generic { return env.Subscribe(1, subs(1)...) }},
		{"SUBSCRIBE(7,3)", func() packet.Generic { return env.Subscribe(7, subs(3)...) }},
		{"SUBSCRIBE(65535,4)", func() packet.Generic { return env.Subscribe(65535, subs(4)...) }},
		{"SUBACK(1)", func() packet.Generic { s := packet.NewSuback(); s.ID = 1; s.ReturnCodes = []packet.QOS{0}; return s }},
		{"UNSUBSCRIBE(7)", func() packet.Generic { return env.Unsubscribe(7, "f/0", "nope") }},
		{"UNSUBSCRIBE(65535)", func() packet.Generic { return env.Unsubscribe(65535, "f/1") }},
		{"UNSUBACK(7)", func() packet.Generic { u := packet.NewUnsuback(); u.ID = 7; return u }},
		{"PINGREQ", func() packet.Generic { return packet.NewPingreq() }},
		{"PINGRESP", func() packet.Generic { return packet.NewPingresp() }},
		{"DISCONNECT", func() packet.Generic { return packet.NewDisconnect() }},
	}
	return its
}

func alphabetThorough() []item {
	its := alphabet()
	subs8 := func() []packet.Subscription {
		var s []packet.Subscription
		qs := []packet.QOS{2, 0, 1, 2, 1, 0, 2, 1}
		for i := 0; i < 8; i++ {
			s = append(s, packet.Subscription{Topic: fmt.Sprintf("f/%d", i), QOS: qs[i]})
		}
		return s
	}
	its = append(its, item{"SUBSCRIBE(256,8)", func() packet.Generic { return env.Subscribe(256, subs8()...) }})
	return its
}

// expected responses of one request on an accepted connection; closes = the packet ends the connection
func expect(pkt packet.Generic) (resp []string, closes bool) {
	switch p := pkt.(type) {
	case *packet.Connect, *packet.Connack, *packet.Suback, *packet.Unsuback, *packet.Pingresp:
		return nil, true
	case *packet.Disconnect:
		return nil, true
	case *packet.Publish:
		switch p.Message.QOS {
		case 1:
			return []string{fmt.Sprintf("PUBACK(%d)", p.ID)}, false
		case 2:
			return []string{fmt.Sprintf("PUBREC(%d)", p.ID)}, false
		}
		return nil, false
	case *packet.Pubrec:
		return []string{fmt.Sprintf("PUBREL(%d)", p.ID)}, false
	case *packet.Pubrel:
		return []string{fmt.Sprintf("PUBCOMP(%d)", p.ID)}, false
	case *packet.Subscribe:
		var codes []packet.QOS
		for _, s := range p.Subscriptions {
			codes = append(codes, s.QOS)
		}
		return []string{fmt.Sprintf("SUBACK(%d,%v)", p.ID, codes)}, false
	case *packet.Unsubscribe:
		return []string{fmt.Sprintf("UNSUBACK(%d)", p.ID)}, false
	case *packet.Pingreq:
		return []string{"PINGRESP"}, false
	}
	return nil, false
}

func sequence(x *explore.X, pr params) {
	w := env.NewWorld(x, func(m *broker.MemoryBackend) {
		m.Credentials = map[string]string{"u": "pw"}
		// small token pools: a token that is not handed back shows within the sequence length
		// (publish tokens stay at the default 10: unfinished inbound QoS 2 handshakes legitimately hold them)
		m.ClientParallelSubscribes = 2
		if pr.Bystander {
			m.ClientParallelSubscribes = 0 // the stock configuration (defaults are filled in per client)
		}
	})
	w.Real = pr.Real
	// a witness subscribed to everything sees whatever the connection under test causes to be delivered
	wit := w.Dial("witness")
	wit.Send(withCreds(env.Connect("witness", true, nil), "u", "pw"))
	wit.Send(env.Subscribe(1, packet.Subscription{Topic: "#", QOS: 2}))
	w.Settle()
	wit.Drain()
	wit.Inbox = nil
	if pr.Bystander {
		// a peer that pipelines requests and never reads the answers only hurts itself
		by := w.Dial("bystander")
		by.Send(withCreds(env.Connect("bystander", true, nil), "u", "pw"))
		w.Settle()
		by.BEnd.Hold = true
		for i := 0; i < 5; i++ {
			by.Send(env.Subscribe(packet.ID(10+i), packet.Subscription{Topic: fmt.Sprintf("by/%d", i), QOS: 1}))
		}
		w.Settle()
	}
	alpha := alphabet()
	p := w.Dial("c")
	state := "init" // init | connected | closed
	var owed []string
	connacks := 0
	sentPub := map[string]bool{}
	accepted := false
	var names []string
	step := func(it item) {
		pkt := it.mk()
		names = append(names, it.name)
		if pub, ok := pkt.(*packet.Publish); ok && state == "connected" {
			sentPub[string(pub.Message.Payload)] = true
		}
		p.Send(pkt)
		if state == "init" {
			if c, ok := pkt.(*packet.Connect); ok && c.Username == "u" && c.Password == "pw" {
				state = "connected"
				accepted = true
				owed = append(owed, "CONNACK(0,sp=false)")
			} else if ok {
				state = "closed"
				owed = append(owed, "CONNACK(5,sp=false)")
			} else {
				state = "closed"
			}
			return
		}
		if state == "connected" {
			resp, closes := expect(pkt)
			owed = append(owed, resp...)
			if closes {
				state = "closed"
			}
		}
	}
	if pr.Preconn {
		step(alpha[0])
		w.Settle()
	}
	for i := 0; i < pr.Len; i++ {
		it := alpha[vrt.Choose(len(alpha), "packet")]
		wasClosed := state == "closed"
		step(it)
		if !pr.Pipelined {
			w.Settle()
		}
		if wasClosed {
			break // anything after the closing packet adds nothing new
		}
	}
	w.Settle()
	got := p.Drain()
	x.Logf("sent: %s", strings.Join(names, " "))
	x.Logf("received: %s   closed-by-broker=%v", env.Shorts(got), p.ClosedByBroker())
	sig := strings.Join(names, " ")
	// 1. every frame written is a response that was owed (no spurious replies), at most one CONNACK, CONNACK first
	remaining := map[string]int{}
	for _, o := range owed {
		remaining[o]++
	}
	for i, g := range got {
		s := env.Short(g)
		if g.Type() == packet.CONNACK {
			connacks++
			if i != 0 {
				x.Failf("connack-first", "connack-not-first:"+sig, "a CONNACK was written after other packets: %s", env.Shorts(got))
			}
		}
		if pub, ok := g.(*packet.Publish); ok {
			x.Failf("no-spurious-reply", "delivery-to-sender:"+sig, "the connection received %s although it holds no matching subscription", env.Short(pub))
			continue
		}
		if remaining[s] == 0 {
			x.Failf("no-spurious-reply", "spurious:"+s+" in "+sig, "the broker wrote %s which answers nothing that was sent (sent %s; owed %v)", s, sig, owed)
			continue
		}
		remaining[s]--
	}
	if connacks > 1 {
		x.Failf("one-connack", "two-connacks:"+sig, "%d CONNACK packets were written", connacks)
	}
	// 2. a connection that is still legal got every response; a closing packet closes it
	if state == "connected" {
		var missing []string
		for s, n := range remaining {
			for ; n > 0; n-- {
				missing = append(missing, s)
			}
		}
		sort.Strings(missing)
		if len(missing) > 0 {
			x.Failf("every-request-answered", "missing:"+strings.Join(missing, ",")+" in "+sig, "the connection is legal and quiescent but %v was never written (sent %s, received %s)", missing, sig, env.Shorts(got))
		}
		if evs := w.Rec.Calls("Setup", p.Name); len(evs) > 0 {
			if n, c, ok := env.ChanLen(evs[0].Client, "subscribeTokens"); ok && n != c {
				x.Failf("every-request-answered", "subscribe-token-leak:"+sig, "all SUBSCRIBE/UNSUBSCRIBE requests were answered but only %d of %d subscribe tokens are back (sent %s)", n, c, sig)
			}
			// publish tokens: held only by unfinished inbound QoS 2 handshakes - in a sequence without a QoS 2 PUBLISH all
			// of them are back once everything was answered (a request that borrows from the wrong pool shows here
			// long before the pool of 10 runs dry)
			if n, c, ok := env.ChanLen(evs[0].Client, "publishTokens"); ok && n != c && !strings.Contains(sig, "PUBLISH(q2") {
				x.Failf("every-request-answered", "publish-token-leak:"+sig, "every request was answered and no QoS 2 handshake is open, but only %d of %d publish tokens are back (sent %s)", n, c, sig)
			}
		}
		if p.ClosedByBroker() {
			x.Failf("stays-open", "closed:"+sig, "the broker closed a connection that sent only legal packets: %s", sig)
		}
	} else {
		if !p.ClosedByBroker() && state == "closed" {
			x.Failf("closes-on-violation", "not-closed:"+sig, "the connection must be closed after %s but is still open", sig)
		}
		if !accepted && remaining["CONNACK(5,sp=false)"] > 0 && !p.BEnd.LocalClosed {
			x.Failf("every-request-answered", "no-connack5:"+sig, "rejected CONNECT got no not-authorised CONNACK")
		}
		if len(p.Live()) > 0 {
			x.Failf("closes-on-violation", "threads-left:"+sig, "threads of the closed connection are still alive: %v", p.Live())
		}
	}
	// 3. nothing is acted upon before an accepted CONNECT
	if !accepted {
		for _, hook := range []string{"Setup", "Restore", "Subscribe", "Unsubscribe", "Publish", "Dequeue", "Terminate"} {
			if n := len(w.Rec.Calls(hook, p.Name)); n > 0 {
				x.Failf("nothing-before-connect", "hook:"+hook+" in "+sig, "backend hook %s was invoked %d time(s) for a connection that was never accepted (sent %s)", hook, n, sig)
			}
		}
		if _, isConn := alphabetFirst(names, alpha).(*packet.Connect); !isConn && len(got) > 0 {
			x.Failf("nothing-before-connect", "reply-without-connect:"+sig, "a connection whose first packet is not CONNECT got a reply: %s", env.Shorts(got))
		}
	}
	// 4. the witness sees exactly the messages published on an accepted connection (and a will only via C12's rules)
	for _, m := range wit.Drain() {
		pub, ok := m.(*packet.Publish)
		if !ok {
			continue
		}
		tag := string(pub.Message.Payload)
		if tag == "will" {
			if !accepted {
				x.Failf("nothing-before-connect", "will-of-unaccepted:"+sig, "the will of a connection that was never accepted was published (sent %s)", sig)
			}
			continue
		}
		if !sentPub[tag] {
			x.Failf("nothing-before-connect", "delivery:"+tag+" in "+sig, "message %q reached a subscriber although it was not published on an accepted connection (sent %s)", tag, sig)
		}
	}
	if accepted {
		x.Note("accepted")
	}
	if len(got) > 1 {
		x.Note("answered")
	}
	x.Event(fmt.Sprintf("%s|%s|%v", state, env.Shorts(got), p.ClosedByBroker()))
	x.Outcome(fmt.Sprintf("%s|%d", state, len(got)))
}

func alphabetFirst(names []string, alpha []item) packet.Generic {
	for _, it := range alpha {
		if len(names) > 0 && it.name == names[0] {
			return it.mk()
		}
	}
	return nil
}

func run(r *report.Report) {
	r.Assume("filters subscribed by the connection under test are disjoint from the topics it publishes to, so the reference transducer needs no delivery model (deliveries are C06's subject)",
		"responses are compared per request (multiset + correlation), not as one total order: acknowledgements routed through the ack queue and direct replies are written by different broker goroutines",
		"a packet sent after a connection-closing packet is not required to be answered",
		"the broker runs with 2 subscribe tokens per client, so that a token that is not returned blocks a request within the explored sequence length")
	type cfgT struct {
		name  string
		p     params
		bound int
	}
	cfgs := []cfgT{
		{"first-packets", params{Len: 2, Pipelined: true}, 0},
		{"after-connect-stepwise", params{Len: 3, Preconn: true}, 0},
		{"after-connect-pipelined", params{Len: 3, Preconn: true, Pipelined: true}, 0},
		{"cold-pipelined", params{Len: 3, Pipelined: true}, 0},
		{"after-connect-pipelined-reordered", params{Len: 2, Preconn: true, Pipelined: true}, 1},
		{"after-connect-with-stuck-bystander", params{Len: 2, Preconn: true, Pipelined: true, Bystander: true}, 0},
		{"cold-pipelined-over-baseconn", params{Len: 3, Pipelined: true, Real: true}, 0},
		{"after-connect-pipelined-over-baseconn", params{Len: 3, Preconn: true, Pipelined: true, Real: true}, 0},
	}
	if r.Tier == "thorough" {
		cfgs = []cfgT{
			{"first-packets", params{Len: 2, Pipelined: true}, 1},
			{"after-connect-stepwise", params{Len: 4, Preconn: true}, 0},
			{"after-connect-pipelined", params{Len: 4, Preconn: true, Pipelined: true}, 0},
			{"cold-pipelined", params{Len: 4, Pipelined: true}, 0},
			{"after-connect-pipelined-reordered", params{Len: 3, Preconn: true, Pipelined: true}, 1},
			{"after-connect-pipelined-reordered2", params{Len: 2, Preconn: true, Pipelined: true}, 2},
			{"after-connect-with-stuck-bystander", params{Len: 3, Preconn: true, Pipelined: true, Bystander: true}, 0},
			{"cold-pipelined-over-baseconn", params{Len: 4, Pipelined: true, Real: true}, 0},
			{"after-connect-pipelined-over-baseconn", params{Len: 4, Preconn: true, Pipelined: true, Real: true}, 0},
			{"after-connect-pipelined-over-baseconn-reordered", params{Len: 2, Preconn: true, Pipelined: true, Real: true}, 1},
		}
	}
	for _, c := range cfgs {
		js, _ := json.Marshal(c.p)
		st := explore.Explore(explore.Config{Harness: "C20.seq", Params: string(js), Bound: c.bound, Workers: report.Workers(), Deadline: r.Deadline()})
		r.AddExploration(c.name, "history", fmt.Sprintf("all sequences of %d packets over %d packet instances (all 14 types, ids 1/7/65535, 1-4 filters, good/bad credentials), pipelined=%v, preceded by a valid CONNECT=%v, over transport.BaseConn=%v, with a bystander connection that pipelined 5 SUBSCRIBEs and reads nothing=%v, delay bound %d", c.p.Len, len(alphabet()), c.p.Pipelined, c.p.Preconn, c.p.Real, c.p.Bystander, c.bound), st,
			"one execution = one packet sequence on a fresh broker with a witness subscribed to '#'; replies compared with a reference transducer; non-trivial = sequences on an accepted connection that received more than the CONNACK", "answered")
	}
}

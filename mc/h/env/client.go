package env

import (
	"fmt"

	"github.com/256dpi/gomqtt/packet"
)

// Delivery is one PUBLISH received by a scripted client.
type Delivery struct {
	Topic   string
	Payload string
	QOS     packet.QOS
	Retain  bool
	Dup     bool
	ID      packet.ID
}

func (d Delivery) String() string {
	f := ""
	if d.Retain {
		f += "r"
	}
	if d.Dup {
		f += "d"
	}
	return fmt.Sprintf("%s=%q/q%d%s", d.Topic, d.Payload, d.QOS, f)
}

// Client is a passive, protocol-conformant scripted MQTT client: the harness
// tells it what to send; Pump makes it read what the broker wrote and answer
// according to its acknowledgement policy.
type Client struct {
	*Peer
	ID        string
	Got       []Delivery       // every PUBLISH received (in order)
	Other     []packet.Generic // every other packet received (in order)
	NoAck     bool             // withhold PUBACK/PUBREC/PUBCOMP for deliveries
	NoRel     bool             // withhold PUBREL for own QoS 2 publishes
	Connack   *packet.Connack
	Subacks   []*packet.Suback
	Unsubacks []packet.ID
	Acked     map[packet.ID]int // PUBACK/PUBCOMP received for own publishes
	pubID     packet.ID
	withheld  []packet.Generic // acknowledgements not sent because of NoAck
}

// NewClient dials a new connection for client id.
func (w *World) NewClient(id string) *Client {
	return &Client{Peer: w.Dial(id), ID: id, Acked: map[packet.ID]int{}}
}

// Connect sends CONNECT.
func (c *Client) Connect(clean bool, will *packet.Message) {
	c.Send(Connect(c.ID, clean, will))
}

// Pump reads everything the broker wrote and answers it; it reports whether it sent anything.
func (c *Client) Pump() bool {
	sent := false
	for _, pkt := range c.Drain() {
		switch p := pkt.(type) {
		case *packet.Publish:
			c.Got = append(c.Got, Delivery{p.Message.Topic, string(p.Message.Payload), p.Message.QOS, p.Message.Retain, p.Dup, p.ID})
			if c.NoAck || c.Closed() {
				switch p.Message.QOS {
				case 1:
					c.withheld = append(c.withheld, Puback(p.ID))
				case 2:
					c.withheld = append(c.withheld, Pubrec(p.ID))
				}
				continue
			}
			switch p.Message.QOS {
			case 1:
				sent = c.Send(Puback(p.ID)) || sent
			case 2:
				sent = c.Send(Pubrec(p.ID)) || sent
			}
		case *packet.Pubrel:
			c.Other = append(c.Other, pkt)
			if !c.NoAck && !c.Closed() {
				sent = c.Send(Pubcomp(p.ID)) || sent
			}
		case *packet.Pubrec:
			c.Other = append(c.Other, pkt)
			if !c.NoRel && !c.Closed() {
				sent = c.Send(Pubrel(p.ID)) || sent
			}
		case *packet.Puback:
			c.Acked[p.ID]++
			c.Other = append(c.Other, pkt)
		case *packet.Pubcomp:
			c.Acked[p.ID]++
			c.Other = append(c.Other, pkt)
		case *packet.Connack:
			c.Connack = p
			c.Other = append(c.Other, pkt)
		case *packet.Suback:
			c.Subacks = append(c.Subacks, p)
			c.Other = append(c.Other, pkt)
		case *packet.Unsuback:
			c.Unsubacks = append(c.Unsubacks, p.ID)
			c.Other = append(c.Other, pkt)
		default:
			c.Other = append(c.Other, pkt)
		}
	}
	return sent
}

// Flush ends the withholding of acknowledgements and sends the withheld ones.
func (c *Client) Flush() {
	c.NoAck = false
	for _, a := range c.withheld {
		c.Send(a)
	}
	c.withheld = nil
}

// Pub publishes a message with a fresh packet id (for QoS > 0).
func (c *Client) Pub(topic, payload string, qos packet.QOS, retain bool) packet.ID {
	var id packet.ID
	if qos > 0 {
		c.pubID++
		if c.pubID == 0 {
			c.pubID = 1
		}
		id = c.pubID + 100
	}
	c.Send(Publish(id, topic, payload, qos, retain, false))
	return id
}

// TakeGot returns and clears the deliveries received so far.
func (c *Client) TakeGot() []Delivery {
	g := c.Got
	c.Got = nil
	return g
}

// Run settles the broker and pumps all given clients until nothing moves any more.
func (w *World) Run(clients ...*Client) {
	for i := 0; i < 200; i++ {
		w.Settle()
		any := false
		for _, c := range clients {
			if c != nil && c.Peer != nil {
				if c.Pump() {
					any = true
				}
			}
		}
		if !any {
			return
		}
	}
	panic("env: the exchange does not quiesce (200 rounds)")
}

package env

import (
	"errors"
	"io"
	"time"
)

var ErrCarrier = errors.New("injected carrier failure")
var ErrCarrierTimeout = errors.New("carrier: i/o timeout")
var ErrCarrierClosed = errors.New("carrier: use of closed connection")

// Carrier is an in-memory transport.Carrier: it records what is written,
// serves reads from a byte queue in chunks chosen by the harness, blocks reads
// until data arrives / the carrier is closed / the read deadline is expired,
// and fails the k-th Read / Write / Close / SetReadDeadline on request.
type Carrier struct {
	Written    []byte   // concatenation of everything written
	Writes     [][]byte // the individual Write calls
	WriteTimes []int    // logical time of each Write call
	buf        []byte
	eof        bool // the peer closed: reads return io.EOF once the queue is drained
	closed     bool
	expired    bool
	wake       chan struct{}
	Chunk      int // Read hands out at most Chunk bytes (0 = as much as fits)
	Block      bool // Write blocks until released (back-pressure)
	release    chan struct{}
	released   bool

	Deadlines  []time.Time
	CloseCalls int
	ReadCalls  int

	// fault switches: fail the n-th call from now (1 = next)
	FailRead, FailWrite, FailClose, FailDeadline int
	ShortWrite bool // the failing write transfers half of its data first
}

func NewCarrier() *Carrier {
	return &Carrier{wake: make(chan struct{}, 1), release: make(chan struct{})}
}

func hitN(n *int) bool {
	if *n > 0 {
		*n--
		if *n == 0 {
			return true
		}
	}
	return false
}

func (c *Carrier) signal() {
	select {
	case c.wake <- struct{}{}:
	default:
	}
}

// Feed makes bytes available to Read.
func (c *Carrier) Feed(b []byte) { c.buf = append(c.buf, b...); c.signal() }

// PeerClose: no more data will come; Read returns io.EOF after the queue is drained.
func (c *Carrier) PeerClose() { c.eof = true; c.signal() }

// ExpireReadDeadline: from now on a Read that finds no data fails with a timeout (the deadline in force - whichever
// SetReadDeadline installed it - passes while the reader waits).
func (c *Carrier) ExpireReadDeadline() { c.expired = true; c.signal() }

// Unblock lets blocked writes proceed.
func (c *Carrier) Unblock() {
	c.Block = false
	if !c.released {
		c.released = true
		close(c.release)
	}
}

func (c *Carrier) Read(p []byte) (int, error) {
	c.ReadCalls++
	if hitN(&c.FailRead) {
		return 0, ErrCarrier
	}
	for {
		if c.closed {
			return 0, ErrCarrierClosed
		}
		if len(c.buf) > 0 {
			n := len(p)
			if c.Chunk > 0 && n > c.Chunk {
				n = c.Chunk
			}
			n = copy(p[:n], c.buf)
			c.buf = c.buf[n:]
			if len(c.buf) > 0 {
				c.signal()
			}
			return n, nil
		}
		if c.eof {
			return 0, io.EOF
		}
		if c.expired {
			return 0, ErrCarrierTimeout
		}
		<-c.wake
	}
}

func (c *Carrier) Write(p []byte) (int, error) {
	if c.closed {
		return 0, ErrCarrierClosed
	}
	if c.Block {
		<-c.release
		if c.closed {
			return 0, ErrCarrierClosed
		}
	}
	if hitN(&c.FailWrite) {
		if c.ShortWrite && len(p) > 1 {
			h := len(p) / 2
			c.Written = append(c.Written, p[:h]...)
			c.Writes = append(c.Writes, append([]byte{}, p[:h]...))
			return h, ErrCarrier
		}
		return 0, ErrCarrier
	}
	c.Written = append(c.Written, p...)
	c.Writes = append(c.Writes, append([]byte{}, p...))
	return len(p), nil
}

func (c *Carrier) Close() error {
	c.CloseCalls++
	c.closed = true
	c.signal()
	// release blocked writers
	if !c.released {
		c.released = true
		close(c.release)
	}
	if hitN(&c.FailClose) {
		return ErrCarrier
	}
	return nil
}

func (c *Carrier) IsClosed() bool { return c.closed }

func (c *Carrier) SetReadDeadline(t time.Time) error {
	if hitN(&c.FailDeadline) {
		return ErrCarrier
	}
	c.Deadlines = append(c.Deadlines, t)
	return nil
}

package env

import (
	"net"
	"runtime"
	"sort"
	"strings"
	"time"

	"github.com/256dpi/gomqtt/packet"
	"github.com/256dpi/gomqtt/transport"

	"verif/vrt"
)

// RealConn is the library's BaseConn plus the two address methods that NetConn / WebSocketConn add.
type RealConn struct {
	*transport.BaseConn
	e *End
}

func (c *RealConn) LocalAddr() net.Addr  { return c.e.LocalAddr() }
func (c *RealConn) RemoteAddr() net.Addr { return c.e.RemoteAddr() }

// EndCarrier presents one End of a Pipe as a transport.Carrier (a byte stream
// with a read deadline), so that the code under test can be given the real
// transport.BaseConn (packet.Stream, mercury writer, flush timer, send /
// receive mutexes) on top of the same scripted peer and the same fault
// switches. Unlike End.Send / End.Receive the carrier never closes itself on a
// failure: that is the job of the BaseConn above it, and part of what is checked.
type EndCarrier struct {
	E         *End
	rbuf      []byte // rest of the frame being handed out
	wbuf      []byte // bytes written that do not yet form a whole frame
	Deadlines []time.Time
}

func (c *EndCarrier) Read(p []byte) (int, error) {
	if len(c.rbuf) == 0 {
		frame, err := c.E.recvFrame(false)
		if err != nil {
			return 0, err
		}
		c.rbuf = frame
		if pkt, err := DecodeFrame(frame, 0); err == nil {
			c.E.Received++
			if c.E.OnRecv != nil {
				c.E.OnRecv(pkt)
			}
		}
	}
	n := copy(p, c.rbuf)
	c.rbuf = c.rbuf[n:]
	return n, nil
}

func (c *EndCarrier) Write(p []byte) (int, error) {
	e := c.E
	if e.p.isShut {
		return 0, ErrClosedPipe
	}
	if e.Hold {
		// the peer does not read and the socket buffer is full: the write blocks until released or closed
		select {
		case <-e.unhold:
		case <-e.p.closed:
			return 0, ErrClosedPipe
		}
	}
	c.wbuf = append(c.wbuf, p...)
	for len(c.wbuf) >= 2 {
		n, _ := packet.DetectPacket(c.wbuf)
		if n <= 0 || n > len(c.wbuf) {
			break
		}
		frame := append([]byte{}, c.wbuf[:n]...)
		c.wbuf = c.wbuf[n:]
		pkt, _ := DecodeFrame(frame, 0)
		if err := e.sendFrame(frame, pkt, false); err != nil {
			return 0, err
		}
	}
	return len(p), nil
}

func (c *EndCarrier) Close() error { return c.E.Close() }

func (c *EndCarrier) SetReadDeadline(t time.Time) error {
	c.Deadlines = append(c.Deadlines, t)
	d := time.Duration(0)
	if !t.IsZero() {
		d = t.Sub(time.Now())
	}
	c.E.ReadTimeout = d
	c.E.ReadTimeouts = append(c.E.ReadTimeouts, d)
	return nil
}

// ClosersBehindBlockedWrite inspects the parked goroutines of the execution: it returns, for every goroutine that
// waits for a mutex inside transport.(*BaseConn).Close (the send mutex, or the buffered writer's mutex during the
// flush) while some goroutine is blocked inside the carrier's Write (and therefore holds that mutex), the function that called Close ("broker.(*Client).die", ...). The call
// site is what identifies the situation, independent of which scenario led to it.
func ClosersBehindBlockedWrite() []string {
	waiting := false
	for _, b := range vrt.Blocked() {
		if strings.HasSuffix(b, "@Mutex.Lock") {
			waiting = true
		}
	}
	if !waiting {
		return nil // nobody is parked at a mutex: no need to look at stacks
	}
	buf := make([]byte, 1<<20)
	buf = buf[:runtime.Stack(buf, true)]
	var callers []string
	writer := false
	for _, g := range strings.Split(string(buf), "\n\n") {
		if strings.Contains(g, "env.(*EndCarrier).Write") {
			writer = true
		}
		if !strings.Contains(g, "transport.(*BaseConn).Close") || !strings.Contains(g, "vsync.(*Mutex).Lock") {
			continue
		}
		lines := strings.Split(g, "\n")
		seen := false
		for _, l := range lines {
			if strings.HasPrefix(l, "\t") || strings.HasPrefix(l, "goroutine ") {
				continue
			}
			fn := l
			if i := strings.LastIndex(fn, "("); i > 0 {
				fn = fn[:i]
			}
			if strings.Contains(fn, "transport.(*BaseConn).Close") {
				seen = true
				continue
			}
			if seen && !strings.Contains(fn, "env.(*RealConn)") {
				if i := strings.LastIndex(fn, "/"); i >= 0 {
					fn = fn[i+1:]
				}
				callers = append(callers, fn)
				break
			}
		}
	}
	if !writer {
		return nil
	}
	sort.Strings(callers)
	return callers
}

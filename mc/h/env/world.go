package env

import (
	"fmt"
	"net"
	"sort"
	"strings"

	"github.com/256dpi/gomqtt/broker"
	"github.com/256dpi/gomqtt/packet"
	"github.com/256dpi/gomqtt/session"
	"github.com/256dpi/gomqtt/transport"

	"verif/explore"
	"verif/vrt"
)

// World is a broker (engine + recording memory backend) with scripted peers
// attached over codec pipes. In history mode the harness main thread is the
// environment: it makes peers send, injects faults, then calls Settle.
type World struct {
	X     *explore.X
	MB    *broker.MemoryBackend
	Rec   *Recorder
	Eng   *broker.Engine
	Peers []*Peer
	nconn int
	Real  bool // connections dialled from now on reach the broker as a transport.BaseConn over an EndCarrier
}

// NewWorld builds a broker; cfg may adjust the memory backend before use.
func NewWorld(x *explore.X, cfg func(m *broker.MemoryBackend)) *World {
	mb := broker.NewMemoryBackend()
	mb.SessionQueueSize = 8
	if cfg != nil {
		cfg(mb)
	}
	w := &World{X: x, MB: mb, Rec: NewRecorder(mb)}
	w.Eng = broker.NewEngine(w.Rec)
	return w
}

// Peer is the remote end of one connection to the broker.
type Peer struct {
	W      *World
	Name   string // connection name (unique per connection)
	End    *End   // peer side
	BEnd   *End   // broker side (fault switches live here)
	Conn   transport.Conn // what the broker was handed: BEnd itself, or a transport.BaseConn over it (World.Real)
	Inbox  []packet.Generic
	nextID packet.ID
}

// Dial opens a new connection and hands its broker side to the engine.
func (w *World) Dial(name string) *Peer {
	w.nconn++
	cn := fmt.Sprintf("%s#%d", name, w.nconn)
	p := NewPipe("peer:"+cn, cn, 256)
	peer := &Peer{W: w, Name: cn, End: p.A, BEnd: p.B, Conn: p.B}
	if w.Real {
		// the broker talks through the real transport.BaseConn over a byte-stream view of the same pipe
		peer.Conn = &RealConn{BaseConn: transport.NewBaseConn(&EndCarrier{E: p.B}), e: p.B}
	}
	w.Peers = append(w.Peers, peer)
	old := vrt.Cur().Tag
	vrt.SetTag(cn)
	w.Eng.Handle(peer.Conn)
	vrt.SetTag(old)
	return peer
}

// Settle lets the broker run until nothing can move.
func (w *World) Settle() { vrt.Quiesce() }

// Send writes a packet towards the broker (false if the connection is closed).
func (p *Peer) Send(pkt packet.Generic) bool {
	return p.End.Send(pkt, false) == nil
}

// Raw injects a raw frame towards the broker.
func (p *Peer) Raw(frame []byte) bool { return p.BEnd.Inject(frame) }

// Drop closes the connection from the peer's side (the broker sees EOF after queued data).
func (p *Peer) Drop() { p.End.Close() }

// Closed reports whether the connection has been closed by either side.
func (p *Peer) Closed() bool { return p.End.p.Closed() }

// ClosedByBroker reports whether the broker closed the connection.
func (p *Peer) ClosedByBroker() bool { return p.BEnd.LocalClosed }

// Drain moves everything the broker has written into Inbox and returns the new packets.
func (p *Peer) Drain() []packet.Generic {
	var out []packet.Generic
	for {
		pkt := p.End.TryRecv()
		if pkt == nil {
			break
		}
		out = append(out, pkt)
	}
	p.Inbox = append(p.Inbox, out...)
	return out
}

// NextID hands out packet ids for the peer's own requests.
func (p *Peer) NextID() packet.ID {
	p.nextID++
	if p.nextID == 0 {
		p.nextID = 1
	}
	return p.nextID
}

// Live lists the broker threads still alive for this connection.
func (p *Peer) Live() []string { return vrt.LiveByTag(p.Name) }

/* packet constructors */

func Connect(id string, clean bool, will *packet.Message) *packet.Connect {
	c := packet.NewConnect()
	c.ClientID = id
	c.CleanSession = clean
	c.Will = will
	return c
}

func Publish(id packet.ID, topic, payload string, qos packet.QOS, retain, dup bool) *packet.Publish {
	p := packet.NewPublish()
	p.ID = id
	p.Dup = dup
	p.Message = packet.Message{Topic: topic, Payload: []byte(payload), QOS: qos, Retain: retain}
	return p
}

func Subscribe(id packet.ID, subs ...packet.Subscription) *packet.Subscribe {
	s := packet.NewSubscribe()
	s.ID = id
	s.Subscriptions = subs
	return s
}

func Unsubscribe(id packet.ID, topics ...string) *packet.Unsubscribe {
	u := packet.NewUnsubscribe()
	u.ID = id
	u.Topics = topics
	return u
}

func Puback(id packet.ID) *packet.Puback   { p := packet.NewPuback(); p.ID = id; return p }
func Pubrec(id packet.ID) *packet.Pubrec   { p := packet.NewPubrec(); p.ID = id; return p }
func Pubrel(id packet.ID) *packet.Pubrel   { p := packet.NewPubrel(); p.ID = id; return p }
func Pubcomp(id packet.ID) *packet.Pubcomp { p := packet.NewPubcomp(); p.ID = id; return p }

// Short renders a packet compactly for logs and state fingerprints.
func Short(pkt packet.Generic) string {
	switch p := pkt.(type) {
	case *packet.Publish:
		f := ""
		if p.Dup {
			f += "d"
		}
		if p.Message.Retain {
			f += "r"
		}
		return fmt.Sprintf("PUBLISH(%d,%s,%q,q%d%s)", p.ID, p.Message.Topic, string(p.Message.Payload), p.Message.QOS, f)
	case *packet.Puback:
		return fmt.Sprintf("PUBACK(%d)", p.ID)
	case *packet.Pubrec:
		return fmt.Sprintf("PUBREC(%d)", p.ID)
	case *packet.Pubrel:
		return fmt.Sprintf("PUBREL(%d)", p.ID)
	case *packet.Pubcomp:
		return fmt.Sprintf("PUBCOMP(%d)", p.ID)
	case *packet.Connack:
		return fmt.Sprintf("CONNACK(%d,sp=%v)", p.ReturnCode, p.SessionPresent)
	case *packet.Connect:
		w := ""
		if p.Will != nil {
			w = fmt.Sprintf(",will=%s/%q/q%d/r%v", p.Will.Topic, string(p.Will.Payload), p.Will.QOS, p.Will.Retain)
		}
		return fmt.Sprintf("CONNECT(%q,clean=%v%s)", p.ClientID, p.CleanSession, w)
	case *packet.Suback:
		return fmt.Sprintf("SUBACK(%d,%v)", p.ID, p.ReturnCodes)
	case *packet.Subscribe:
		var ss []string
		for _, s := range p.Subscriptions {
			ss = append(ss, fmt.Sprintf("%s:%d", s.Topic, s.QOS))
		}
		return fmt.Sprintf("SUBSCRIBE(%d,%s)", p.ID, strings.Join(ss, ","))
	case *packet.Unsubscribe:
		return fmt.Sprintf("UNSUBSCRIBE(%d,%s)", p.ID, strings.Join(p.Topics, ","))
	case *packet.Unsuback:
		return fmt.Sprintf("UNSUBACK(%d)", p.ID)
	}
	return strings.ToUpper(pkt.Type().String())
}

func Shorts(ps []packet.Generic) string {
	var s []string
	for _, p := range ps {
		s = append(s, Short(p))
	}
	return strings.Join(s, " ")
}

// StoreDump renders a session's packet store in one direction, sorted by id
// (taken inside vrt.Atomic by callers that need an instant view).
func StoreDump(s broker.Session, dir session.Direction) string {
	if s == nil {
		return "<nil>"
	}
	all, err := s.AllPackets(dir)
	if err != nil {
		return "ERR"
	}
	var ss []string
	for _, p := range all {
		ss = append(ss, Short(p))
	}
	sort.Strings(ss)
	return strings.Join(ss, " ")
}

// FakeServer is a transport.Server whose Accept blocks until Close (lets a
// harness call Engine.Accept so that Engine.Close has an acceptor to stop).
type FakeServer struct {
	closed chan struct{}
	done   bool
}

func NewFakeServer() *FakeServer { return &FakeServer{closed: make(chan struct{})} }

func (s *FakeServer) Accept() (transport.Conn, error) {
	<-s.closed
	return nil, ErrClosedPipe
}

func (s *FakeServer) Close() error {
	if !s.done {
		s.done = true
		close(s.closed)
	}
	return nil
}

func (s *FakeServer) Addr() net.Addr { return addr("fake-server") }

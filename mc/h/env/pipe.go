// Package env holds the environment models shared by the broker/client
// harnesses: the codec pipe (an in-memory transport.Conn that really encodes
// and decodes every packet), the recording backend, and scripted peers.
// Like every harness package it is rewritten onto the controlled scheduler.
package env

import (
	"errors"
	"fmt"
	"io"
	"net"
	"time"

	"github.com/256dpi/gomqtt/packet"

	"verif/vrt"
)

var ErrInjected = errors.New("injected connection failure")
var ErrClosedPipe = errors.New("use of closed connection")
var ErrReadTimeout = errors.New("read timeout (i/o timeout)")

// FailMode selects how the next operation on an End fails.
type FailMode int

const (
	NoFail     FailMode = iota
	FailBefore          // the packet is not transferred; the call returns an error and the connection is closed
	FailAfter           // the packet is transferred, then the call returns an error and the connection is closed
)

// Pipe is a bidirectional in-memory connection. Each End implements
// transport.Conn; what one End sends the other receives, after a real
// Encode into a fresh frame and a real DetectPacket/Decode out of it, so the
// two sides never share packet structs and encode errors surface exactly as
// they do in transport.BaseConn (the connection is closed, the error returned).
type Pipe struct {
	A, B   *End
	closed chan struct{}
	isShut bool
}

// End is one side of a Pipe.
type End struct {
	CloseErr error // returned by the next Close (which closes the connection all the same)
	Name string
	p    *Pipe
	peer *End
	in   chan []byte // frames written by the other side

	// configuration observed from the code under test
	ReadLimit    int64
	ReadTimeout  time.Duration
	ReadTimeouts []time.Duration // every value passed to SetReadTimeout
	WriteDelay   time.Duration

	// fault switches
	failSend    FailMode
	failSendAt  int // fail the n-th Send from now (1 = next)
	failRecv    bool
	expired     chan struct{} // closed when the harness expires the read deadline
	LocalClosed bool          // Close was called on this End
	CloseCalls  int

	// observation
	Sent     int                      // packets successfully written by this End
	Received int                      // packets returned by Receive
	OnSend   func(pkt packet.Generic) // called at the instant a packet is written (before it is transferred)
	OnRecv   func(pkt packet.Generic) // called at the instant a packet is returned by Receive
	Hold     bool                     // when set, Send blocks (models a peer that does not read and a full socket buffer)
	StickyHold bool                   // a held Send is not released by closing the connection either (a write stuck below the transport: only Release ends it)
	unhold   chan struct{}
	unheld   bool
	isExpired bool
}

// NewPipe creates a pipe; capacity is the number of frames that can be in
// flight per direction before Send blocks.
func NewPipe(nameA, nameB string, capacity int) *Pipe {
	p := &Pipe{closed: make(chan struct{})}
	p.A = &End{Name: nameA, p: p, in: make(chan []byte, capacity), expired: make(chan struct{}), unhold: make(chan struct{})}
	p.B = &End{Name: nameB, p: p, in: make(chan []byte, capacity), expired: make(chan struct{}), unhold: make(chan struct{})}
	p.A.peer, p.B.peer = p.B, p.A
	return p
}

func (p *Pipe) shut() {
	if !p.isShut {
		p.isShut = true
		close(p.closed)
	}
}

// Closed reports whether either side closed the pipe.
func (p *Pipe) Closed() bool { return p.isShut }

/* transport.Conn */

func (e *End) Send(pkt packet.Generic, async bool) error {
	if e.p.isShut {
		return ErrClosedPipe
	}
	if e.Hold && e.StickyHold {
		<-e.unhold
		if e.p.isShut {
			return ErrClosedPipe
		}
	} else if e.Hold {
		select {
		case <-e.unhold:
		case <-e.p.closed:
			return ErrClosedPipe
		}
	}
	// real encoding, as packet.Encoder does
	buf := make([]byte, pkt.Len())
	n, err := pkt.Encode(buf)
	if err != nil {
		e.Close()
		return err
	}
	return e.sendFrame(buf[:n], pkt, true)
}

// sendFrame transfers one encoded frame to the other side, honouring the fault switches. selfClose: an injected
// failure also closes the connection (what transport.BaseConn does on a write error); the byte-stream adapter
// (EndCarrier) passes false because there the real BaseConn above it has to do that.
func (e *End) sendFrame(buf []byte, pkt packet.Generic, selfClose bool) error {
	if e.failSendAt > 0 {
		e.failSendAt--
	}
	mode := NoFail
	if e.failSendAt == 0 && e.failSend != NoFail {
		mode = e.failSend
		e.failSend = NoFail
	}
	if mode == FailBefore {
		if selfClose {
			e.Close()
		}
		return ErrInjected
	}
	if e.OnSend != nil && pkt != nil {
		e.OnSend(pkt)
	}
	select {
	case e.peer.in <- buf:
	case <-e.p.closed:
		return ErrClosedPipe
	}
	e.Sent++
	if mode == FailAfter {
		if selfClose {
			e.Close()
		}
		return ErrInjected
	}
	return nil
}

func (e *End) Receive() (packet.Generic, error) {
	frame, err := e.recvFrame(true)
	if err != nil {
		return nil, err
	}
	pkt, err := DecodeFrame(frame, e.ReadLimit)
	if err != nil {
		e.Close()
		return nil, err
	}
	e.Received++
	if e.OnRecv != nil {
		e.OnRecv(pkt)
	}
	return pkt, nil
}

// recvFrame waits for the next frame from the other side, honouring the fault switches (selfClose as in sendFrame).
func (e *End) recvFrame(selfClose bool) ([]byte, error) {
	if e.failRecv {
		e.failRecv = false
		if selfClose {
			e.Close()
		}
		return nil, ErrInjected
	}
	var frame []byte
	if e.LocalClosed {
		// a locally closed connection fails reads, except that a packet that had already been
		// buffered may still be handed out (bufio in packet.Decoder): owned choice, default = fail
		if len(e.in) > 0 && selfClose && vrt.ChooseDev(2, "read-after-local-close") == 1 {
			frame = <-e.in
		} else {
			return nil, ErrClosedPipe
		}
	} else {
		// data that arrived before the peer closed is still delivered (FIN semantics)
		select {
		case frame = <-e.in:
		default:
			select {
			case frame = <-e.in:
			case <-e.p.closed:
				// drain what is queued, then EOF
				select {
				case frame = <-e.in:
				default:
					if e.LocalClosed {
						return nil, ErrClosedPipe
					}
					return nil, io.EOF
				}
			case <-e.expired:
				if selfClose {
					e.Close()
				}
				return nil, ErrReadTimeout
			}
		}
	}
	return frame, nil
}

// DecodeFrame does what packet.Decoder.Read does with one complete frame.
func DecodeFrame(frame []byte, limit int64) (packet.Generic, error) {
	if len(frame) < 2 {
		return nil, io.ErrUnexpectedEOF
	}
	n, t := packet.DetectPacket(frame)
	if n <= 0 {
		return nil, packet.ErrDetectionOverflow
	}
	if limit > 0 && int64(n) > limit {
		return nil, packet.ErrReadLimitExceeded
	}
	pkt, err := t.New()
	if err != nil {
		return nil, err
	}
	if n > len(frame) {
		return nil, io.ErrUnexpectedEOF
	}
	if _, err := pkt.Decode(frame[:n]); err != nil {
		return nil, err
	}
	return pkt, nil
}

func (e *End) Close() error {
	e.CloseCalls++
	e.LocalClosed = true
	e.p.shut()
	if err := e.CloseErr; err != nil {
		// the connection is closed, but the first Close reports a failure (a final flush that could not be written)
		e.CloseErr = nil
		return err
	}
	return nil
}

func (e *End) SetReadLimit(limit int64) { e.ReadLimit = limit }
func (e *End) SetReadTimeout(d time.Duration) {
	e.ReadTimeout = d
	e.ReadTimeouts = append(e.ReadTimeouts, d)
}
func (e *End) SetMaxWriteDelay(d time.Duration) { e.WriteDelay = d }
func (e *End) LocalAddr() net.Addr              { return addr(e.Name) }
func (e *End) RemoteAddr() net.Addr             { return addr(e.peer.Name) }

type addr string

func (a addr) Network() string { return "pipe" }
func (a addr) String() string  { return string(a) }

/* harness-side controls */

// FailSend makes the n-th Send from now (1 = the next one) fail in the given mode.
func (e *End) FailSend(n int, mode FailMode) { e.failSendAt, e.failSend = n, mode }

// FailReceive makes the next Receive call fail (a Receive already blocked is not affected).
func (e *End) FailReceive() { e.failRecv = true }

// ExpireReadDeadline models the read deadline passing while Receive waits.
func (e *End) ExpireReadDeadline() {
	if !e.isExpired {
		e.isExpired = true
		close(e.expired)
	}
}

// Release lets held Sends proceed.
func (e *End) Release() {
	e.Hold = false
	if !e.unheld {
		e.unheld = true
		close(e.unhold)
	}
}

// Inject puts a raw frame into this End's receive queue (what a hostile peer can do).
func (e *End) Inject(frame []byte) bool {
	if e.p.isShut {
		return false
	}
	select {
	case e.in <- frame:
		return true
	default:
		return false
	}
}

// Pending returns the number of frames queued towards this End.
func (e *End) Pending() int { return len(e.in) }

// TryRecv returns the next packet queued towards this End without blocking (nil if none).
func (e *End) TryRecv() packet.Generic {
	select {
	case frame := <-e.in:
		pkt, err := DecodeFrame(frame, 0)
		if err != nil {
			panic(fmt.Sprintf("env: peer cannot decode what the code under test wrote: %v (% x)", err, frame))
		}
		return pkt
	default:
		return nil
	}
}

package env

import (
	"errors"
	"fmt"
	"strings"

	"github.com/256dpi/gomqtt/broker"
	"github.com/256dpi/gomqtt/packet"

	"verif/vrt"
)

var ErrHook = errors.New("injected backend failure")

// Ev is one recorded backend hook invocation.
type Ev struct {
	T      int    // logical time of entry
	Ret    int    // logical time of return (0 while in progress)
	Hook   string // Authenticate, Setup, Restore, Subscribe, Unsubscribe, Publish, Dequeue, Terminate
	Client *broker.Client
	Conn   string // name of the connection the client runs on
	Tag    string // payload tag for Publish/Dequeue
	Msg    *packet.Message
	Err    error
	Acked  int // logical time the ack passed to the hook was invoked (0 = not yet)
	Refused bool // the hook invoked the ack but then returned an error: the hand-over was not accepted
}

// HeldAck is an acknowledgement the recorder is holding back.
type HeldAck struct {
	Ev  *Ev
	ack broker.Ack
}

// Recorder wraps a MemoryBackend: it logs every hook with logical
// timestamps, counts accepted hand-overs per payload tag, can hold back the
// acks of Publish (to release them later, from any thread, or never) and can
// make the k-th call of a hook fail. Sessions pass through untouched because
// the memory backend type-asserts them.
type Recorder struct {
	*broker.MemoryBackend
	Evs       []*Ev
	HoldAcks  bool
	Held      []*HeldAck
	FailHook  string // hook to fail
	FailAt    int    // fail the n-th call from now of FailHook (1 = next)
	FailConn  string // if set, only calls made on behalf of connections whose name starts with this prefix fail
	Accepted  map[string]int
	LogEvents []string // broker log events (LogEvent + conn), if KeepLog
	KeepLog   bool
	OnPublish func(ev *Ev) // called on entry of Publish, before the backend acts
}

func NewRecorder(m *broker.MemoryBackend) *Recorder {
	return &Recorder{MemoryBackend: m, Accepted: map[string]int{}}
}

func connName(c *broker.Client) string {
	if c == nil {
		return "?"
	}
	switch e := c.Conn().(type) {
	case *End:
		return e.Name
	case *RealConn:
		return e.e.Name
	}
	return "?"
}

func (r *Recorder) enter(hook string, c *broker.Client) *Ev {
	ev := &Ev{T: vrt.Tick(), Hook: hook, Client: c, Conn: connName(c)}
	r.Evs = append(r.Evs, ev)
	return ev
}

func (r *Recorder) fail(hook string) bool {
	if r.FailConn != "" && (len(r.Evs) == 0 || !strings.HasPrefix(r.Evs[len(r.Evs)-1].Conn, r.FailConn)) {
		return false
	}
	if r.FailHook == hook && r.FailAt > 0 {
		r.FailAt--
		if r.FailAt == 0 {
			r.FailHook = ""
			return true
		}
	}
	return false
}

func (r *Recorder) Authenticate(c *broker.Client, user, password string) (bool, error) {
	ev := r.enter("Authenticate", c)
	defer func() { ev.Ret = vrt.Tick() }()
	if r.fail("Authenticate") {
		ev.Err = ErrHook
		return false, ErrHook
	}
	ok, err := r.MemoryBackend.Authenticate(c, user, password)
	ev.Err = err
	if !ok {
		ev.Tag = "denied"
	}
	return ok, err
}

func (r *Recorder) Setup(c *broker.Client, id string, clean bool) (broker.Session, bool, error) {
	ev := r.enter("Setup", c)
	ev.Tag = id
	defer func() { ev.Ret = vrt.Tick() }()
	if r.fail("Setup") {
		ev.Err = ErrHook
		return nil, false, ErrHook
	}
	s, resumed, err := r.MemoryBackend.Setup(c, id, clean)
	ev.Err = err
	return s, resumed, err
}

func (r *Recorder) Restore(c *broker.Client) error {
	ev := r.enter("Restore", c)
	defer func() { ev.Ret = vrt.Tick() }()
	if r.fail("Restore") {
		ev.Err = ErrHook
		return ErrHook
	}
	ev.Err = r.MemoryBackend.Restore(c)
	return ev.Err
}

func (r *Recorder) Subscribe(c *broker.Client, subs []packet.Subscription, ack broker.Ack) error {
	ev := r.enter("Subscribe", c)
	ev.Tag = fmt.Sprint(subs)
	defer func() { ev.Ret = vrt.Tick() }()
	if r.fail("Subscribe") {
		ev.Err = ErrHook
		return ErrHook
	}
	ev.Err = r.MemoryBackend.Subscribe(c, subs, func() {
		ev.Acked = vrt.Tick()
		if ack != nil {
			ack()
		}
	})
	return ev.Err
}

func (r *Recorder) Unsubscribe(c *broker.Client, topics []string, ack broker.Ack) error {
	ev := r.enter("Unsubscribe", c)
	ev.Tag = fmt.Sprint(topics)
	defer func() { ev.Ret = vrt.Tick() }()
	if r.fail("Unsubscribe") {
		ev.Err = ErrHook
		return ErrHook
	}
	ev.Err = r.MemoryBackend.Unsubscribe(c, topics, func() {
		ev.Acked = vrt.Tick()
		if ack != nil {
			ack()
		}
	})
	return ev.Err
}

func (r *Recorder) Publish(c *broker.Client, msg *packet.Message, ack broker.Ack) error {
	ev := r.enter("Publish", c)
	ev.Tag = string(msg.Payload)
	ev.Msg = msg.Copy()
	defer func() { ev.Ret = vrt.Tick() }()
	if r.OnPublish != nil {
		r.OnPublish(ev)
	}
	if r.fail("Publish") {
		ev.Err = ErrHook
		return ErrHook
	}
	tag := ev.Tag
	invoked := false
	defer func() {
		// a hand-over the backend refused (Publish returned an error) was not accepted, whatever it did with the ack
		if ev.Err != nil && invoked {
			r.Accepted[tag]--
			ev.Refused = true
		}
	}()
	ev.Err = r.MemoryBackend.Publish(c, msg, func() {
		// the backend has accepted responsibility for the message (provided Publish does not fail afterwards)
		invoked = true
		r.Accepted[tag]++
		if r.HoldAcks && ack != nil {
			r.Held = append(r.Held, &HeldAck{Ev: ev, ack: ack})
			return
		}
		ev.Acked = vrt.Tick()
		if ack != nil {
			ack()
		}
	})
	return ev.Err
}

// ReleaseAck invokes the i-th held acknowledgement.
func (r *Recorder) ReleaseAck(i int) {
	h := r.Held[i]
	r.Held = append(r.Held[:i:i], r.Held[i+1:]...)
	h.Ev.Acked = vrt.Tick()
	h.ack()
}

func (r *Recorder) Dequeue(c *broker.Client) (*packet.Message, broker.Ack, error) {
	ev := r.enter("Dequeue", c)
	defer func() { ev.Ret = vrt.Tick() }()
	if r.fail("Dequeue") {
		ev.Err = ErrHook
		return nil, nil, ErrHook
	}
	msg, ack, err := r.MemoryBackend.Dequeue(c)
	ev.Err = err
	if msg != nil {
		ev.Tag = string(msg.Payload)
		ev.Msg = msg
	}
	return msg, ack, err
}

func (r *Recorder) Terminate(c *broker.Client) error {
	ev := r.enter("Terminate", c)
	defer func() { ev.Ret = vrt.Tick() }()
	if r.fail("Terminate") {
		ev.Err = ErrHook
		return ErrHook
	}
	ev.Err = r.MemoryBackend.Terminate(c)
	return ev.Err
}

// Log records the broker's log events (they mark protocol-level facts such as "client disconnected").
func (r *Recorder) Log(event broker.LogEvent, c *broker.Client, pkt packet.Generic, msg *packet.Message, err error) {
	if r.KeepLog {
		s := string(event) + "@" + connName(c)
		if err != nil {
			s += ": " + err.Error()
		}
		r.LogEvents = append(r.LogEvents, s)
	}
}

// Calls returns the recorded invocations of hook on connection conn ("" = any).
func (r *Recorder) Calls(hook, conn string) []*Ev {
	var out []*Ev
	for _, e := range r.Evs {
		if e.Hook == hook && (conn == "" || e.Conn == conn) {
			out = append(out, e)
		}
	}
	return out
}

// InProgress returns the hook calls that were entered and have not returned.
func (r *Recorder) InProgress() []*Ev {
	var out []*Ev
	for _, e := range r.Evs {
		if e.Ret == 0 {
			out = append(out, e)
		}
	}
	return out
}

// Timeline renders the recorded hook calls (Dequeue excluded) in entry order, for replay logs.
func (r *Recorder) Timeline() []string {
	var out []string
	for _, e := range r.Evs {
		if e.Hook == "Dequeue" && e.Tag == "" {
			continue
		}
		s := fmt.Sprintf("t=%d..%d %s@%s %s", e.T, e.Ret, e.Hook, e.Conn, e.Tag)
		if e.Err != nil {
			s += " err=" + e.Err.Error()
		}
		out = append(out, s)
	}
	return out
}

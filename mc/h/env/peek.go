package env

import (
	"reflect"
	"unsafe"
)

// Peek returns the value of an unexported field of *obj (nil if there is no
// such field): oracles use it for implementation-level invariants (token
// channels, queues) and must degrade gracefully when a field is missing.
func Peek(obj interface{}, field string) (v interface{}) {
	defer func() {
		if recover() != nil {
			v = nil
		}
	}()
	rv := reflect.ValueOf(obj)
	if rv.Kind() != reflect.Ptr {
		return nil
	}
	f := rv.Elem().FieldByName(field)
	if !f.IsValid() {
		return nil
	}
	return reflect.NewAt(f.Type(), unsafe.Pointer(f.UnsafeAddr())).Elem().Interface()
}

// ChanLen returns len and cap of a (rewritten) channel held in an unexported field; ok=false if absent.
func ChanLen(obj interface{}, field string) (n, c int, ok bool) {
	v := Peek(obj, field)
	if v == nil {
		return 0, 0, false
	}
	if ch, isCh := v.(interface {
		Len() int
		Cap() int
	}); isCh {
		rv := reflect.ValueOf(v)
		if rv.Kind() == reflect.Ptr && rv.IsNil() {
			return 0, 0, false
		}
		return ch.Len(), ch.Cap(), true
	}
	return 0, 0, false
}

// Package selftest registers the conformance corpus as an explorable harness.
package selftest

import (
	"strconv"

	"verif/explore"
	"verif/selftest/corpus"
)

func init() {
	explore.Register("selftest.prog", func(p string) explore.Harness {
		i, _ := strconv.Atoi(p)
		return func(x *explore.X) {
			x.Outcome(corpus.Progs[i].Run())
		}
	})
}

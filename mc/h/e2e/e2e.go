// Package e2e closes the loop between the two halves that the other
// harnesses check against scripted peers: the real client library talks to
// the real broker (engine + memory backend) over codec pipes, both rewritten
// onto the controlled scheduler. A publishing client and a subscribing
// client exchange numbered messages at QoS 0/1/2 while their connections are
// cut and resumed; the end-to-end guarantees are judged at the subscribing
// application's callback:
//
//	QoS 2: every message whose publish future completed arrives exactly once
//	QoS 1: ... at least once;  no message arrives that was never published
//	order: per QoS level, first arrivals come in publishing order (C15)
//	futures: with both sides reconnected and a cooperative network every publish future resolves
//
// It is also the conformance check of the scripted peers used elsewhere: the
// scripted broker of C09/C10/C17 and the scripted clients of C06-C08 stand
// in for exactly the two implementations that face each other here.
package e2e

import (
	"encoding/json"
	"fmt"
	"strings"

	"github.com/256dpi/gomqtt/broker"
	"github.com/256dpi/gomqtt/client"
	"github.com/256dpi/gomqtt/packet"
	"github.com/256dpi/gomqtt/session"
	"github.com/256dpi/gomqtt/transport"

	"verif/explore"
	"verif/h/env"
	"verif/vrt"
)

type Params struct {
	Depth  int
	QOS    []int
	Faults bool // write failures in addition to drops
	Window int  // broker inflight window (0 = default)
}

func init() {
	explore.Register("E2E.hist", func(p string) explore.Harness {
		var pr Params
		json.Unmarshal([]byte(p), &pr)
		return func(x *explore.X) { run(x, pr) }
	})
}

// dialer hands the broker side of a fresh pipe to the engine
type dialer struct {
	w     *env.World
	name  string
	peers []*env.Peer
	fail  bool
}

var errDial = fmt.Errorf("dial refused")

func (d *dialer) Dial(url string) (transport.Conn, error) {
	if d.fail {
		d.fail = false
		return nil, errDial
	}
	p := d.w.Dial(d.name)
	d.peers = append(d.peers, p)
	return p.End, nil
}

func (d *dialer) cur() *env.Peer {
	if len(d.peers) == 0 {
		return nil
	}
	return d.peers[len(d.peers)-1]
}

type side struct {
	x    *explore.X
	name string
	d    *dialer
	sess *session.MemorySession
	c    *client.Client
	got  []*packet.Message // application callback log (subscriber)
	errs int
}

type fut struct {
	tag  string
	qos  packet.QOS
	f    client.GenericFuture
	done bool
	err  error
}

func watch(f *fut) {
	go func() {
		f.err = f.f.Wait(0)
		f.done = true
	}()
}

func (s *side) connect(clean bool) bool {
	s.c = client.New()
	s.c.Session = s.sess
	s.c.Callback = func(msg *packet.Message, err error) error {
		if err != nil {
			s.errs++
			return nil
		}
		s.got = append(s.got, msg.Copy())
		return nil
	}
	cfg := client.NewConfigWithClientID("tcp://broker", s.name)
	cfg.Dialer = s.d
	cfg.CleanSession = clean
	cfg.KeepAlive = "0s"
	cfg.MaxWriteDelay = 0
	ok := false
	done := false
	go func() {
		cf, err := s.c.Connect(cfg)
		if err == nil && cf.Wait(0) == nil {
			ok = true
		}
		done = true
	}()
	vrt.Quiesce()
	return done && ok
}

func (s *side) up() bool {
	p := s.d.cur()
	return s.c != nil && p != nil && !p.Closed()
}

// down makes sure the client object is finished (Close returns) before a new one takes over the session
func (s *side) down() bool {
	if s.c == nil {
		return true
	}
	done := false
	go func() { s.c.Close(); done = true }()
	vrt.Quiesce()
	return done
}

func run(x *explore.X, pr Params) {
	w := env.NewWorld(x, func(m *broker.MemoryBackend) {
		if pr.Window > 0 {
			m.ClientInflightMessages = pr.Window
		}
	})
	pub := &side{x: x, name: "pub", d: &dialer{w: w, name: "pub"}, sess: session.NewMemorySession()}
	sub := &side{x: x, name: "sub", d: &dialer{w: w, name: "sub"}, sess: session.NewMemorySession()}
	if !sub.connect(false) || !pub.connect(false) {
		x.Failf("setup", "e2e-connect", "the clients could not connect to the broker")
		return
	}
	sf, err := sub.c.Subscribe("t", 2)
	vrt.Quiesce()
	if err != nil || sf.Wait(0) != nil {
		x.Failf("setup", "e2e-subscribe", "the subscriber could not subscribe: %v", err)
		return
	}
	var futs []*fut
	maybe := map[string]packet.QOS{}
	n := 0
	var hist []string
	for step := 0; step < pr.Depth; step++ {
		var evs []string
		for _, q := range pr.QOS {
			evs = append(evs, fmt.Sprintf("publish(q%d)", q))
		}
		for _, s := range []*side{pub, sub} {
			if s.up() {
				evs = append(evs, "drop-"+s.name)
				if pr.Faults {
					evs = append(evs, "next-write-fails-"+s.name, "next-broker-write-fails-"+s.name)
				}
			} else {
				evs = append(evs, "reconnect-"+s.name)
			}
		}
		ev := evs[vrt.Choose(len(evs), "event")]
		hist = append(hist, ev)
		switch {
		case strings.HasPrefix(ev, "publish("):
			var q int
			fmt.Sscanf(ev, "publish(q%d)", &q)
			n++
			tag := fmt.Sprintf("m%d/q%d", n, q)
			if pub.c == nil {
				break
			}
			var f client.GenericFuture
			var err error
			ret := false
			go func() { f, err = pub.c.Publish("t", []byte(tag), packet.QOS(q), false); ret = true }()
			vrt.Quiesce()
			if !ret {
				x.Failf("calls-return", "e2e-publish-blocked", "Client.Publish did not return (history %v); blocked: %v", hist, vrt.Blocked())
				return
			}
			if err == nil {
				ft := &fut{tag: tag, qos: packet.QOS(q), f: f}
				futs = append(futs, ft)
				watch(ft)
			} else {
				// the call failed: either nothing happened (not connected) or the packet was recorded and the write failed -
				// then it may still be delivered after a resume (never more than once at QoS 2)
				maybe[tag] = packet.QOS(q)
				hist[len(hist)-1] += "=error"
			}
		case strings.HasPrefix(ev, "drop-"):
			s := map[string]*side{"pub": pub, "sub": sub}[ev[5:]]
			s.d.cur().Drop()
		case strings.HasPrefix(ev, "next-write-fails-"):
			s := map[string]*side{"pub": pub, "sub": sub}[ev[len("next-write-fails-"):]]
			s.d.cur().End.FailSend(1, env.FailBefore)
		case strings.HasPrefix(ev, "next-broker-write-fails-"):
			s := map[string]*side{"pub": pub, "sub": sub}[ev[len("next-broker-write-fails-"):]]
			s.d.cur().BEnd.FailSend(1, env.FailAfter)
		case strings.HasPrefix(ev, "reconnect-"):
			s := map[string]*side{"pub": pub, "sub": sub}[ev[10:]]
			if !s.down() {
				x.Failf("calls-return", "e2e-close-blocked", "Client.Close of the disconnected %s client did not return (history %v); blocked: %v", s.name, hist, vrt.Blocked())
				return
			}
			s.connect(false)
		}
		vrt.Quiesce()
		x.Event(fmt.Sprintf("%v|%v|%d|%d", pub.up(), sub.up(), len(futs), len(sub.got)))
	}
	// epilogue: both sides reconnect over a cooperative network until nothing moves any more
	for round := 0; round < 4; round++ {
		for _, s := range []*side{pub, sub} {
			if !s.up() {
				if !s.down() {
					x.Failf("calls-return", "e2e-close-blocked", "Client.Close of the disconnected %s client did not return (history %v); blocked: %v", s.name, hist, vrt.Blocked())
					return
				}
				if !s.connect(false) {
					x.Failf("reconnects", "e2e-reconnect-failed:"+s.name, "%s could not reconnect over a cooperative network (history %v)", s.name, hist)
					return
				}
			}
		}
		vrt.Quiesce()
	}
	var arrived []string
	count := map[string]int{}
	for _, m := range sub.got {
		arrived = append(arrived, fmt.Sprintf("%s@q%d", m.Payload, m.QOS))
		count[string(m.Payload)]++
	}
	x.Logf("history %v", hist)
	x.Logf("arrived %v", arrived)
	published := map[string]*fut{}
	for _, f := range futs {
		published[f.tag] = f
		st := "pending"
		if f.done {
			st = fmt.Sprintf("resolved(%v)", f.err)
		}
		x.Logf("publish %s: %s, arrived %d time(s)", f.tag, st, count[f.tag])
	}
	sig := func(s string) string { return s }
	for _, f := range futs {
		c := count[f.tag]
		if !f.done {
			x.Failf("futures-resolve", sig("e2e-future-pending:q")+fmt.Sprint(f.qos), "publish %s: both clients are connected again and idle, yet its future never resolves (history %v)", f.tag, hist)
			continue
		}
		switch {
		case f.qos == 2 && c > 1:
			x.Failf("qos2-exactly-once", "e2e-qos2-twice", "QoS 2 message %s reached the subscribing application %d times (history %v; arrivals %v)", f.tag, c, hist, arrived)
		case f.qos == 2 && c == 0:
			x.Failf("qos2-exactly-once", "e2e-qos2-lost", "QoS 2 message %s was accepted by Client.Publish (recorded in the session; future: %v); publisher and subscriber hold persistent sessions and are connected and idle again, but the message never arrived (history %v; arrivals %v)", f.tag, f.err, hist, arrived)
		case f.qos == 1 && c == 0:
			x.Failf("qos1-at-least-once", "e2e-qos1-lost", "QoS 1 message %s was accepted by Client.Publish (future: %v) but never arrived although both sides resumed their sessions (history %v; arrivals %v)", f.tag, f.err, hist, arrived)
		}
	}
	for tag, q := range maybe {
		if q == 2 && count[tag] > 1 {
			x.Failf("qos2-exactly-once", "e2e-qos2-twice", "QoS 2 message %s (its Publish call returned an error) reached the subscribing application %d times (history %v)", tag, count[tag], hist)
		}
	}
	for tag := range count {
		if _, ok := maybe[tag]; ok {
			continue
		}
		if published[tag] == nil {
			x.Failf("nothing-invented", "e2e-unknown-message", "the subscriber received %q, which was never published (history %v)", tag, hist)
		}
	}
	// order: per QoS level the first arrivals come in publishing order
	last := map[packet.QOS]int{}
	seen := map[string]bool{}
	for _, m := range sub.got {
		tag := string(m.Payload)
		if seen[tag] {
			continue
		}
		seen[tag] = true
		var k, q int
		fmt.Sscanf(tag, "m%d/q%d", &k, &q)
		if k < last[packet.QOS(q)] {
			x.Failf("per-publisher-order", fmt.Sprintf("e2e-out-of-order:q%d", q), "messages published at QoS %d arrived out of publishing order: %v (history %v)", q, arrived, hist)
		}
		last[packet.QOS(q)] = k
	}
	if len(futs) > 0 {
		x.Note("published")
	}
	for _, h := range hist {
		if strings.HasPrefix(h, "drop") || strings.Contains(h, "fails") {
			x.Note("fault")
			break
		}
	}
}

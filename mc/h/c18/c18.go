// Package c18: packet ids never zero / no repeat within 65535 allocations;
// the packet store is a per-direction map.
package c18

import (
	"fmt"
	"sort"
	"strconv"
	"strings"
	"time"

	"github.com/256dpi/gomqtt/packet"
	"github.com/256dpi/gomqtt/session"

	"verif/explore"
	"verif/h/lin"
	"verif/par"
	"verif/report"
	"verif/vrt"
)

func init() {
	report.Register("C18", report.Check{Level: "model_checking", QuickBudget: 240 * time.Second, ThoroughBudget: 20 * time.Minute, Run: run})
	explore.Register("C18.counter-conc", func(string) explore.Harness { return concCounter })
	explore.Register("C18.store-conc", func(string) explore.Harness { return concStore })
	explore.Register("C18.counter-one", func(p string) explore.Harness {
		return func(x *explore.X) {
			s, _ := strconv.Atoi(p)
			for _, f := range counterState(uint16(s)) {
				x.Failf(f.Clause, f.Sig, "%s", f.Msg)
			}
		}
	})
	explore.Register("C18.window", func(p string) explore.Harness {
		return func(x *explore.X) {
			s, _ := strconv.Atoi(p)
			for _, f := range []*explore.ClauseFail{bruteForce(uint16(s)), bruteForceSession(uint16(s))} {
				if f != nil {
					x.Failf(f.Clause, f.Sig, "%s", f.Msg)
				}
			}
		}
	})
	explore.Register("C18.constructed-store", func(p string) explore.Harness {
		return func(x *explore.X) {
			var l []string
			if p != "" {
				l = strings.Split(p, ",")
			}
			x.Logf("packet list: %v", l)
			for _, f := range constructedStore(l) {
				x.Failf(f.Clause, f.Sig, "%s", f.Msg)
			}
		}
	})
	explore.Register("C18.store-closure", func(p string) explore.Harness {
		return func(x *explore.X) {
			c := storeClosure()
			var path []int
			for _, name := range strings.Split(p, " ; ") {
				for i, o := range c.Ops {
					if o == name {
						path = append(path, i)
					}
				}
			}
			x.Logf("operations: %s", p)
			for _, f := range c.Check(c.Build(path), path) {
				x.Failf(f.Clause, f.Sig, "%s", f.Msg)
			}
		}
	})
}

/* ---------- id counter: all 65536 states ---------- */

func refID(s uint16) uint16 {
	if s == 0 {
		return 1
	}
	return s
}

// counterState checks the transition out of counter state s (and the one after it).
func counterState(s uint16) (fails []explore.ClauseFail) {
	defer func() {
		if r := recover(); r != nil {
			explore.EngineFault(r)
			fails = append(fails, explore.ClauseFail{Clause: "no-panic", Sig: fmt.Sprintf("panic:counter-state:%d", s), Msg: fmt.Sprintf("counter starting at %d panicked: %v", s, r)})
		}
	}()
	c := session.NewIDCounterWithNext(packet.ID(s))
	a := uint16(c.NextID())
	b := uint16(c.NextID())
	wa := refID(s)
	wb := refID(wa + 1)
	if a == 0 || b == 0 {
		fails = append(fails, explore.ClauseFail{Clause: "id-nonzero", Sig: fmt.Sprintf("counter-state:%d", s), Msg: fmt.Sprintf("counter starting at %d handed out %d then %d", s, a, b)})
	}
	if a != wa || b != wb {
		fails = append(fails, explore.ClauseFail{Clause: "id-cycle", Sig: fmt.Sprintf("counter-state:%d", s), Msg: fmt.Sprintf("counter starting at %d handed out %d,%d; the 65535-cycle 1..65535 requires %d,%d", s, a, b, wa, wb)})
	}
	// reset after 0, 1, 2 allocations restarts at 1
	for k := 0; k < 3; k++ {
		c := session.NewIDCounterWithNext(packet.ID(s))
		for i := 0; i < k; i++ {
			c.NextID()
		}
		c.Reset()
		if id := c.NextID(); id != 1 {
			fails = append(fails, explore.ClauseFail{Clause: "reset-restarts-at-1", Sig: fmt.Sprintf("counter-state:%d", s), Msg: fmt.Sprintf("counter starting at %d: after %d allocations and Reset the next id is %d, not 1", s, k, id)})
		}
	}
	// the session wrapper behaves the same
	ms := session.NewMemorySession()
	ms.Counter = session.NewIDCounterWithNext(packet.ID(s))
	if id := uint16(ms.NextID()); id != wa {
		fails = append(fails, explore.ClauseFail{Clause: "id-cycle", Sig: fmt.Sprintf("session-counter-state:%d", s), Msg: fmt.Sprintf("MemorySession.NextID from counter state %d returned %d, want %d", s, id, wa)})
	}
	return fails
}

// bruteForce: from start s, 65535 consecutive allocations are pairwise distinct and non-zero.
func bruteForce(s uint16) *explore.ClauseFail {
	c := session.NewIDCounterWithNext(packet.ID(s))
	var seen [65536]bool
	for i := 0; i < 65535; i++ {
		id := uint16(c.NextID())
		if id == 0 || seen[id] {
			return &explore.ClauseFail{Clause: "id-distinct-65535", Sig: fmt.Sprintf("counter-window:%d", s), Msg: fmt.Sprintf("starting at %d, allocation #%d returned %d (zero or repeated within 65535 allocations)", s, i+1, id)}
		}
		seen[id] = true
	}
	return nil
}

// bruteForceSession: the same through MemorySession.NextID with packets stored in both directions - what the stores hold
// must not influence the id sequence (packet ids merely label packets).
func bruteForceSession(s uint16) *explore.ClauseFail {
	ms := session.NewMemorySession()
	ms.Counter = session.NewIDCounterWithNext(packet.ID(s))
	for _, id := range []uint16{s, s + 1, s + 2, 1, 2, 65535} {
		if id == 0 {
			continue
		}
		p := packet.NewPublish()
		p.ID = packet.ID(id)
		p.Message = packet.Message{Topic: "t", QOS: 1}
		ms.SavePacket(session.Outgoing, p)
		q := packet.NewPubrel()
		q.ID = packet.ID(id)
		ms.SavePacket(session.Incoming, q)
	}
	var seen [65536]bool
	for i := 0; i < 65535; i++ {
		id := uint16(ms.NextID())
		if id == 0 || seen[id] {
			return &explore.ClauseFail{Clause: "id-distinct-65535", Sig: fmt.Sprintf("session-window:%d", s), Msg: fmt.Sprintf("MemorySession with stored packets, counter starting at %d: allocation #%d returned %d (zero or repeated within 65535 allocations)", s, i+1, id)}
		}
		seen[id] = true
	}
	return nil
}

/* ---------- packet store: closure over a small universe ---------- */

type storeSys struct {
	s     *session.MemorySession
	model [2]map[packet.ID]packet.Generic
	fails []explore.ClauseFail
	last  string
}

var storePkts = func() map[string]packet.Generic {
	p1a := packet.NewPublish()
	p1a.ID = 1
	p1a.Message = packet.Message{Topic: "t", Payload: []byte("a"), QOS: 1}
	p1b := packet.NewPublish()
	p1b.ID = 1
	p1b.Message = packet.Message{Topic: "t", Payload: []byte("b"), QOS: 2}
	r1 := packet.NewPubrel()
	r1.ID = 1
	p2 := packet.NewPublish()
	p2.ID = 2
	p2.Message = packet.Message{Topic: "u", Payload: []byte("c"), QOS: 1}
	a2 := packet.NewPuback()
	a2.ID = 2
	p0 := packet.NewPublish()
	p0.Message = packet.Message{Topic: "z", Payload: []byte("q0")}
	s3 := packet.NewSubscribe()
	s3.ID = 65535
	s3.Subscriptions = []packet.Subscription{{Topic: "x", QOS: 1}}
	return map[string]packet.Generic{"P1a": p1a, "P1b": p1b, "R1": r1, "P2": p2, "A2": a2, "P0": p0, "S65535": s3,
		"Connect": packet.NewConnect(), "Pingreq": packet.NewPingreq(), "Disconnect": packet.NewDisconnect(), "Connack": packet.NewConnack()}
}()

var storeIDs = []packet.ID{0, 1, 2, 3, 65535}
var dirs = []session.Direction{session.Incoming, session.Outgoing}
var dirName = []string{"in", "out"}

func refIDOf(p packet.Generic) (packet.ID, bool) {
	switch q := p.(type) {
	case *packet.Publish:
		return q.ID, true
	case *packet.Puback:
		return q.ID, true
	case *packet.Pubrec:
		return q.ID, true
	case *packet.Pubrel:
		return q.ID, true
	case *packet.Pubcomp:
		return q.ID, true
	case *packet.Subscribe:
		return q.ID, true
	case *packet.Suback:
		return q.ID, true
	case *packet.Unsubscribe:
		return q.ID, true
	case *packet.Unsuback:
		return q.ID, true
	}
	return 0, false
}

func storeOps() []string {
	var ops []string
	names := make([]string, 0, len(storePkts))
	for n := range storePkts {
		names = append(names, n)
	}
	sort.Strings(names)
	for d := range dirs {
		for _, n := range names {
			ops = append(ops, "Save("+dirName[d]+","+n+")")
		}
		for _, id := range []packet.ID{0, 1, 2, 3} {
			ops = append(ops, fmt.Sprintf("Delete(%s,%d)", dirName[d], id))
		}
	}
	ops = append(ops, "Reset()", "NextID()")
	return ops
}

func (y *storeSys) apply(op string) {
	var d int
	if strings.Contains(op, "(out") {
		d = 1
	}
	switch {
	case strings.HasPrefix(op, "Save("):
		name := op[strings.Index(op, ",")+1 : len(op)-1]
		p := storePkts[name]
		if err := y.s.SavePacket(dirs[d], p); err != nil {
			y.fails = append(y.fails, explore.ClauseFail{Clause: "store-is-map", Sig: "store-op-error:Save", Msg: "SavePacket returned " + err.Error()})
		}
		if id, ok := refIDOf(p); ok {
			y.model[d][id] = p
		}
	case strings.HasPrefix(op, "Delete("):
		n, _ := strconv.Atoi(op[strings.Index(op, ",")+1 : len(op)-1])
		if err := y.s.DeletePacket(dirs[d], packet.ID(n)); err != nil {
			y.fails = append(y.fails, explore.ClauseFail{Clause: "store-is-map", Sig: "store-op-error:Delete", Msg: "DeletePacket returned " + err.Error()})
		}
		delete(y.model[d], packet.ID(n))
	case op == "Reset()":
		if err := y.s.Reset(); err != nil {
			y.fails = append(y.fails, explore.ClauseFail{Clause: "store-is-map", Sig: "store-op-error:Reset", Msg: "Reset returned " + err.Error()})
		}
		y.model[0] = map[packet.ID]packet.Generic{}
		y.model[1] = map[packet.ID]packet.Generic{}
	case op == "NextID()":
		if id := y.s.NextID(); id == 0 {
			y.fails = append(y.fails, explore.ClauseFail{Clause: "id-nonzero", Sig: "session-nextid-zero", Msg: "MemorySession.NextID returned 0"})
		}
	}
	y.last = op
}

func observe(y *storeSys) string {
	var b strings.Builder
	for d := range dirs {
		for _, id := range storeIDs {
			p, err := y.s.LookupPacket(dirs[d], id)
			if err != nil {
				fmt.Fprintf(&b, "%s[%d]=ERR;", dirName[d], id)
			} else if p != nil {
				fmt.Fprintf(&b, "%s[%d]=%s;", dirName[d], id, p.String())
			}
		}
		all, _ := y.s.AllPackets(dirs[d])
		var ss []string
		for _, p := range all {
			ss = append(ss, p.String())
		}
		sort.Strings(ss)
		fmt.Fprintf(&b, "%s.all=%v;", dirName[d], ss)
	}
	return b.String()
}

func storeClosure() *explore.Closure {
	ops := storeOps()
	return &explore.Closure{
		Name: "C18.store-closure",
		Ops:  ops,
		Build: func(path []int) interface{} {
			y := &storeSys{s: session.NewMemorySession()}
			y.model[0] = map[packet.ID]packet.Generic{}
			y.model[1] = map[packet.ID]packet.Generic{}
			for _, o := range path {
				y.apply(ops[o])
				// queries run after every step, so that any state a query leaves behind (a cache) is on the path too
				observe(y)
			}
			return y
		},
		Key: func(sys interface{}) string { return observe(sys.(*storeSys)) },
		Check: func(sys interface{}, path []int) []explore.ClauseFail {
			y := sys.(*storeSys)
			fails := y.fails
			for d := range dirs {
				for _, id := range storeIDs {
					got, err := y.s.LookupPacket(dirs[d], id)
					want := y.model[d][id]
					if err != nil || (got == nil) != (want == nil) || (got != nil && got != want) {
						fails = append(fails, explore.ClauseFail{Clause: "store-is-map", Sig: "lookup-after:" + y.last,
							Msg: fmt.Sprintf("Lookup(%s,%d) = %v, the per-direction map model holds %v", dirName[d], id, got, want)})
					}
				}
				all, err := y.s.AllPackets(dirs[d])
				var g, w []string
				for _, p := range all {
					g = append(g, p.String())
				}
				for _, p := range y.model[d] {
					w = append(w, p.String())
				}
				sort.Strings(g)
				sort.Strings(w)
				if err != nil || strings.Join(g, "|") != strings.Join(w, "|") {
					fails = append(fails, explore.ClauseFail{Clause: "store-is-map", Sig: "all-after:" + y.last,
						Msg: fmt.Sprintf("AllPackets(%s) = %v, the map model holds %v", dirName[d], g, w)})
				}
			}
			return fails
		},
	}
}

// constructedStore compares a store assembled from a list with one filled by Save, before and after one Delete.
func constructedStore(list []string) (fails []explore.ClauseFail) {
	defer func() {
		if r := recover(); r != nil {
			explore.EngineFault(r)
			fails = append(fails, explore.ClauseFail{Clause: "no-panic", Sig: "constructed-store-panic", Msg: fmt.Sprintf("store built from %v: panic: %v", list, r)})
		}
	}()
	build := func() (*session.PacketStore, *session.PacketStore) {
		var ps []packet.Generic
		for _, n := range list {
			ps = append(ps, storePkts[n])
		}
		a := session.NewPacketStoreWithPackets(ps)
		b := session.NewPacketStore()
		for _, p := range ps {
			b.Save(p)
		}
		return a, b
	}
	obs := func(st *session.PacketStore) string {
		var b strings.Builder
		for _, id := range storeIDs {
			if p := st.Lookup(id); p != nil {
				fmt.Fprintf(&b, "[%d]=%s;", id, p.String())
			}
		}
		all := st.All()
		var ss []string
		for _, p := range all {
			if p == nil {
				ss = append(ss, "<nil>")
			} else {
				ss = append(ss, p.String())
			}
		}
		fmt.Fprintf(&b, "all(%d)=%v", len(all), ss)
		return b.String()
	}
	a, b := build()
	if ga, gb := obs(a), obs(b); ga != gb {
		fails = append(fails, explore.ClauseFail{Clause: "store-is-map", Sig: "constructed-store-differs", Msg: fmt.Sprintf("NewPacketStoreWithPackets(%v) answers %s, a store filled by Save in the same order answers %s", list, ga, gb)})
		return
	}
	for _, id := range []packet.ID{0, 1, 2, 3} {
		a, b := build()
		a.Delete(id)
		b.Delete(id)
		if ga, gb := obs(a), obs(b); ga != gb {
			fails = append(fails, explore.ClauseFail{Clause: "store-is-map", Sig: "constructed-store-differs-after-delete", Msg: fmt.Sprintf("NewPacketStoreWithPackets(%v) then Delete(%d) answers %s, a store filled by Save answers %s", list, id, ga, gb)})
			return
		}
	}
	return
}

/* ---------- concurrency: all interleavings of small programs, linearizability ---------- */

var counterSpec = &lin.Spec{
	New:      func() interface{} { return session.NewIDCounterWithNext(65534) },
	NewModel: func() interface{} { n := uint16(65534); return &n },
	Ops: []lin.Op{
		{Name: "NextID", Do: func(s interface{}) string { return fmt.Sprint(s.(*session.IDCounter).NextID()) },
			Ref: func(m interface{}) string {
				n := m.(*uint16)
				id := refID(*n)
				*n = id + 1
				return fmt.Sprint(id)
			}},
		{Name: "Reset", Do: func(s interface{}) string { s.(*session.IDCounter).Reset(); return "" },
			Ref: func(m interface{}) string { *(m.(*uint16)) = 1; return "" }},
	},
	Final:    func(s interface{}) string { return fmt.Sprint(s.(*session.IDCounter).NextID()) },
	FinalRef: func(m interface{}) string { return fmt.Sprint(refID(*(m.(*uint16)))) },
}

var counterProgs = func() [][][]int {
	var ps [][][]int
	for _, shape := range [][]int{{2, 2}, {1, 1, 1}, {3, 2}, {2, 1, 1}} {
		ps = append(ps, lin.Programs(2, shape)...)
	}
	return ps
}()

func concCounter(x *explore.X) {
	p := counterProgs[vrt.Choose(len(counterProgs), "program")]
	lin.Run(x, counterSpec, p)
}

type storeModel [2]map[packet.ID]packet.Generic

func lookupStr(p packet.Generic) string {
	if p == nil {
		return "nil"
	}
	return p.String()
}

func storeOp(name string, d int, kind string, arg string) lin.Op {
	switch kind {
	case "save":
		p := storePkts[arg]
		return lin.Op{Name: name, Do: func(s interface{}) string { s.(*session.MemorySession).SavePacket(dirs[d], p); return "" },
			Ref: func(m interface{}) string {
				if id, ok := refIDOf(p); ok {
					m.(*storeModel)[d][id] = p
				}
				return ""
			}}
	case "delete":
		return lin.Op{Name: name, Do: func(s interface{}) string { s.(*session.MemorySession).DeletePacket(dirs[d], 1); return "" },
			Ref: func(m interface{}) string { delete(m.(*storeModel)[d], 1); return "" }}
	case "lookup":
		return lin.Op{Name: name, Do: func(s interface{}) string {
			p, _ := s.(*session.MemorySession).LookupPacket(dirs[d], 1)
			return lookupStr(p)
		}, Ref: func(m interface{}) string { return lookupStr(m.(*storeModel)[d][1]) }}
	case "all":
		return lin.Op{Name: name, Do: func(s interface{}) string {
			all, _ := s.(*session.MemorySession).AllPackets(dirs[d])
			var ss []string
			for _, p := range all {
				ss = append(ss, p.String())
			}
			sort.Strings(ss)
			return strings.Join(ss, "|")
		}, Ref: func(m interface{}) string {
			var ss []string
			for _, p := range m.(*storeModel)[d] {
				ss = append(ss, p.String())
			}
			sort.Strings(ss)
			return strings.Join(ss, "|")
		}}
	}
	panic("bad op")
}

var storeSpec = &lin.Spec{
	New: func() interface{} {
		s := session.NewMemorySession()
		s.SavePacket(session.Outgoing, storePkts["P2"])
		return s
	},
	NewModel: func() interface{} {
		return &storeModel{map[packet.ID]packet.Generic{}, map[packet.ID]packet.Generic{2: storePkts["P2"]}}
	},
	Ops: []lin.Op{
		storeOp("Save(out,P1a)", 1, "save", "P1a"),
		storeOp("Save(out,R1)", 1, "save", "R1"),
		storeOp("Delete(out,1)", 1, "delete", ""),
		storeOp("Lookup(out,1)", 1, "lookup", ""),
		storeOp("All(out)", 1, "all", ""),
		storeOp("Save(in,P1b)", 0, "save", "P1b"),
		storeOp("Lookup(in,1)", 0, "lookup", ""),
		// MemorySession.Reset is a composite of three independent resets (counter, incoming, outgoing) and is
		// not claimed to be atomic across directions ("per direction" in the property); the concurrent
		// alphabet therefore resets one direction's store, and the composite is covered by the sequential closure.
		{Name: "Reset(out)", Do: func(s interface{}) string { s.(*session.MemorySession).Outgoing.Reset(); return "" },
			Ref: func(m interface{}) string { m.(*storeModel)[1] = map[packet.ID]packet.Generic{}; return "" }},
		{Name: "Reset(in)", Do: func(s interface{}) string { s.(*session.MemorySession).Incoming.Reset(); return "" },
			Ref: func(m interface{}) string { m.(*storeModel)[0] = map[packet.ID]packet.Generic{}; return "" }},
	},
	Final: func(s interface{}) string {
		y := &storeSys{s: s.(*session.MemorySession)}
		return observe(y)
	},
	FinalRef: func(m interface{}) string {
		sm := m.(*storeModel)
		s := session.NewMemorySession()
		for d := range dirs {
			for _, p := range sm[d] {
				s.SavePacket(dirs[d], p)
			}
		}
		return observe(&storeSys{s: s})
	},
}

var storeProgs = func() [][][]int {
	var ps [][][]int
	for _, shape := range [][]int{{2, 2}, {1, 1, 1}} {
		ps = append(ps, lin.Programs(len(storeSpec.Ops), shape)...)
	}
	return ps
}()

func concStore(x *explore.X) {
	p := storeProgs[vrt.Choose(len(storeProgs), "program")]
	lin.Run(x, storeSpec, p)
}

/* ---------- the check ---------- */

func run(r *report.Report) {
	r.Assume("packet ids merely label packets: the closure key of the store omits the id counter, whose own state space (all 65536 values) is covered separately",
		"RWMutex is modelled without writer preference; atomics and lock acquisitions are the only scheduling points (unsynchronised accesses are the business of the separate -race pass)",
		"concurrency is bounded to 2-3 threads and 1-3 operations per thread; within that every interleaving is explored (the preemption bound exceeds the number of scheduling points)")
	// 1. all 65536 counter states
	t0 := r.Seconds()
	var viol []explore.Violation
	nv := 0
	for s := 0; s < 65536; s++ {
		for _, f := range counterState(uint16(s)) {
			nv++
			if len(viol) < 8 {
				viol = append(viol, explore.Violation{Harness: "C18.counter-one", Params: fmt.Sprint(s), Clause: f.Clause, Sig: f.Sig, Msg: f.Msg})
			}
		}
	}
	r.AddSweep(report.Part{Name: "counter-states", Mode: "closure", Bound: "all 65536 values of the counter state", Evaluations: 65536, Nontrivial: 65536, States: 65536, Transitions: 65536 * 2,
		Rule: "every possible value s of the counter: the two ids handed out from s (and the id after Reset following 0,1,2 allocations) against the cycle 1..65535; each s is a distinct state", Exhaustive: true, Wall: r.Seconds() - t0, Violations: nv}, viol)
	r.Sample("counter state 65535 -> ids 65535, 1 (wrap-around skips 0); state 0 -> ids 1, 2")
	// 2. brute-force window
	t0 = r.Seconds()
	starts := []int{0, 1, 2, 3, 255, 256, 32767, 32768, 65533, 65534, 65535}
	if r.Tier == "thorough" {
		starts = nil
		for s := 0; s < 65536; s += 16 {
			starts = append(starts, s)
		}
	}
	viol, nv = nil, 0
	done := 0
	complete := true
	for _, s := range starts {
		if time.Now().UnixNano() > r.Deadline() {
			complete = false
			break
		}
		for _, f := range []*explore.ClauseFail{bruteForce(uint16(s)), bruteForceSession(uint16(s))} {
			if f != nil {
				nv++
				if len(viol) < 8 {
					viol = append(viol, explore.Violation{Harness: "C18.window", Params: fmt.Sprint(s), Clause: f.Clause, Sig: f.Sig, Msg: f.Msg})
				}
			}
		}
		done++
	}
	r.AddSweep(report.Part{Name: "counter-window", Mode: "sweep", Bound: fmt.Sprintf("%d start values x 65535 consecutive allocations", done), Evaluations: int64(done) * 65535, Nontrivial: int64(done),
		Rule: "the statement itself by brute force: from each start value, 65535 consecutive NextID results are non-zero and pairwise distinct (bitmap) - on a bare IDCounter and through a MemorySession that holds packets in both stores; non-trivial = start values", Exhaustive: complete, Wall: r.Seconds() - t0, Violations: nv}, viol)
	// 3. store closure
	c := storeClosure()
	cr := c.Run(r.Deadline())
	r.AddSweep(report.Part{Name: "store-closure", Mode: "closure", Bound: fmt.Sprintf("fixpoint over %d operations (11 packets incl. id-less ones x 2 directions, deletes, Reset, NextID); depth reached %d", len(c.Ops), cr.MaxDepth),
		Evaluations: int64(cr.Transitions), Nontrivial: int64(cr.States), States: int64(cr.States), Transitions: int64(cr.Transitions),
		Rule: "breadth-first closure over MemorySession states; in every state Lookup of ids {0,1,2,3,65535} and AllPackets in both directions are compared with two independent map[id]packet models; non-trivial = distinct implementation states",
		Exhaustive: cr.Complete, Wall: cr.Wall, Violations: cr.NViol}, cr.Viol)
	for _, s := range cr.Samples {
		r.Sample(map[string]string{"part": "store-closure", "operations": s})
	}
	// 3a. every operation history up to a fixed length without merging states (state a particular history leaves behind
	// and the state key cannot see)
	sd := 3
	if r.Tier == "thorough" {
		sd = 4
	}
	sr := c.Sequences(sd, r.Deadline(), func(gen func(emit func([]int)), work func([]int) []explore.ClauseFail, collect func([]int, []explore.ClauseFail), deadline int64) bool {
		return par.Run(gen, work, collect, deadline)
	})
	r.AddSweep(report.Part{Name: "store-histories", Mode: "sweep", Bound: fmt.Sprintf("all operation sequences of length 1..%d over %d operations (no state merging)", sd, len(c.Ops)),
		Evaluations: int64(sr.Transitions), Nontrivial: int64(sr.Transitions), Rule: "every sequence on a fresh MemorySession, the comparisons of the closure after the last operation; non-trivial = sequences",
		Exhaustive: sr.Complete, Wall: sr.Wall, Violations: sr.NViol}, sr.Viol)
	// 3b. stores built from a packet list (NewPacketStoreWithPackets / NewIDCounterWithNext: how a restored session is assembled)
	t0 = r.Seconds()
	viol, nv = nil, 0
	nlists := 0
	names := make([]string, 0, len(storePkts))
	for n := range storePkts {
		names = append(names, n)
	}
	sort.Strings(names)
	var lists [][]string
	for _, a := range names {
		lists = append(lists, []string{a})
		for _, b := range names {
			lists = append(lists, []string{a, b})
			for _, c := range names {
				lists = append(lists, []string{a, b, c})
			}
		}
	}
	lists = append(lists, nil)
	for _, l := range lists {
		nlists++
		for _, f := range constructedStore(l) {
			nv++
			if len(viol) < 8 {
				viol = append(viol, explore.Violation{Harness: "C18.constructed-store", Params: strings.Join(l, ","), Clause: f.Clause, Sig: f.Sig, Msg: f.Msg})
			}
		}
	}
	r.AddSweep(report.Part{Name: "constructed-store", Mode: "sweep", Bound: fmt.Sprintf("all %d packet lists of length 0-3 over 11 packets (repeated ids, id-less packets)", nlists), Evaluations: int64(nlists) * 6, Nontrivial: int64(nlists),
		Rule: "NewPacketStoreWithPackets(list) against a store filled by Save in the same order: Lookup of 5 ids, All (also its length), and the same again after Delete of each of ids 0-3 on a fresh pair; non-trivial = lists", Exhaustive: true, Wall: r.Seconds() - t0, Violations: nv}, viol)
	r.RacePass()
	// 4. concurrency
	st := explore.Explore(explore.Config{Harness: "C18.counter-conc", Bound: 12, FreeSwitch: true, Workers: report.Workers(), Deadline: r.Deadline()})
	r.AddExploration("counter-concurrent", "schedule", fmt.Sprintf("%d programs (shapes 2x2,1x1x1,3x2,2x1x1 over NextID/Reset, counter starting at 65534) x all interleavings", len(counterProgs)), st,
		"each execution is one interleaving of one program, its call/return history checked for linearizability against the cycle model; non-trivial = executions with >= 2 threads", "concurrent")
	st = explore.Explore(explore.Config{Harness: "C18.store-conc", Bound: 12, FreeSwitch: true, Workers: report.Workers(), Deadline: r.Deadline()})
	r.AddExploration("store-concurrent", "schedule", fmt.Sprintf("%d programs (shapes 2x2, 1x1x1 over 9 store operations on id 1, both directions) x all interleavings", len(storeProgs)), st,
		"each execution is one interleaving of one program, checked for linearizability against the per-direction map model, final state included; non-trivial = executions with >= 2 threads", "concurrent")
}

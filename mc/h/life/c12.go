// Package life holds the connection-lifecycle harnesses: C12 (will exactly
// once iff accepted and no DISCONNECT), C13 (one live connection per client
// id) and C14 (no client can crash or stall the broker).
package life

import (
	"errors"
	"encoding/json"
	"fmt"
	"strings"
	"time"

	"github.com/256dpi/gomqtt/broker"
	"github.com/256dpi/gomqtt/packet"

	"verif/explore"
	"verif/h/env"
	"verif/report"
	"verif/vrt"
)

type c12params struct {
	States []string
	Causes []string
	WillQ  []int
	Real   bool // the broker talks through the real transport.BaseConn (byte stream over the pipe) instead of the pipe's own Conn
}

func init() {
	report.Register("C12", report.Check{Level: "model_checking", QuickBudget: 240 * time.Second, ThoroughBudget: 25 * time.Minute, Run: runC12})
	explore.Register("C12.will", func(p string) explore.Harness {
		var pr c12params
		json.Unmarshal([]byte(p), &pr)
		return func(x *explore.X) { will(x, pr) }
	})
}

var c12states = []string{"idle", "inbound-q1-open", "inbound-q2-open", "outbound-open", "blocked-on-token", "observer-queue-full", "blocked-in-send"}

// causes that strike an accepted connection
var c12causes = []string{"DISCONNECT", "drop", "read-error", "malformed-frame", "oversized-frame", "second-CONNECT", "server-only-packet",
	"keepalive-expiry", "takeover-clean", "takeover-unclean", "backend-close", "send-failure", "engine-close", "token-timeout",
	"DISCONNECT-then-drop", "malformed-then-DISCONNECT", "DISCONNECT-close-fails"}

// causes that strike before / instead of acceptance
var c12pre = []string{"pre:setup-fails", "pre:drop-before-CONNECT", "pre:non-CONNECT-first", "pre:malformed-CONNECT", "pre:connect-timeout", "pre:rejected-credentials", "pre:CONNACK-write-fails", "pre:backend-closing"}

func will(x *explore.X, pr c12params) {
	wq := packet.QOS(pr.WillQ[vrt.Choose(len(pr.WillQ), "will-qos")])
	wr := vrt.Choose(2, "will-retain") == 1
	all := append(append([]string{}, pr.Causes...))
	cause := all[vrt.Choose(len(all), "cause")]
	state := "n/a"
	if !strings.HasPrefix(cause, "pre:") {
		state = pr.States[vrt.Choose(len(pr.States), "state")]
	}
	ka := []uint16{0, 10, 600}[vrt.Choose(3, "keepalive")]
	// the client under test is either a named persistent client or an anonymous one (empty client id, clean session)
	anon := vrt.Choose(2, "anonymous-client") == 1
	if anon && (cause == "takeover-clean" || cause == "takeover-unclean") {
		return // an anonymous client cannot be displaced through its id
	}
	x.Logf("will q%d retain=%v, state %s, cause %s, keepalive %d, anonymous %v", wq, wr, state, cause, ka, anon)
	sig := fmt.Sprintf("%s in state %s", cause, state)
	if cause == "token-timeout" && state != "blocked-on-token" {
		return // the token timeout can only strike a connection that is waiting for a token
	}
	if cause == "send-failure" && state == "blocked-in-send" {
		return // a write that is blocked does not fail
	}

	vrt.Quiet(true) // observers and helper connect on the default schedule; exploration starts with the client under test
	w := env.NewWorld(x, func(m *broker.MemoryBackend) {
		m.Credentials = map[string]string{"u": "pw"}
		m.ClientParallelPublishes = 1
		m.ClientInflightMessages = 1
		if state == "observer-queue-full" {
			m.SessionQueueSize = 1
		}
	})
	w.Rec.KeepLog = true
	w.Real = pr.Real
	if pr.Real {
		sig += " (over transport.BaseConn)"
	}
	srv := env.NewFakeServer()
	w.Eng.Accept(srv)
	creds := func(c *packet.Connect) *packet.Connect { c.Username, c.Password = "u", "pw"; return c }
	// observers
	online := w.NewClient("o")
	online.Send(creds(env.Connect("o", true, nil)))
	online.Send(env.Subscribe(1, packet.Subscription{Topic: "w", QOS: 2}))
	offline := w.NewClient("f")
	offline.Send(creds(env.Connect("f", false, nil)))
	offline.Send(env.Subscribe(1, packet.Subscription{Topic: "w", QOS: 1}))
	helper := w.NewClient("h")
	helper.Send(creds(env.Connect("h", true, nil)))
	w.Run(online, offline, helper)
	offline.Send(packet.NewDisconnect())
	w.Run(online, offline, helper)

	// the client under test
	vrt.Quiet(false)
	wm := &packet.Message{Topic: "w", Payload: []byte("WILL"), QOS: wq, Retain: wr}
	d := w.NewClient("d")
	conn := creds(env.Connect("d", false, wm))
	if anon {
		conn = creds(env.Connect("", true, wm))
		sig += " (anonymous)"
	}
	conn.KeepAlive = ka
	disconnectRead := false // the broker read a DISCONNECT packet from the connection (as opposed to one still queued when it died)
	d.BEnd.OnRecv = func(pkt packet.Generic) {
		if pkt.Type() == packet.DISCONNECT {
			disconnectRead = true
		}
	}
	// over the real BaseConn: a goroutine waiting in BaseConn.Close for the send mutex that a blocked write holds
	// (identified by the caller of Close); the shutdown / take-over clauses are then consequences of that one fact
	stalled := func() []string {
		if !pr.Real || state != "blocked-in-send" {
			return nil // a write only blocks in that state
		}
		return env.ClosersBehindBlockedWrite()
	}
	accepted := true
	disconnectProcessed := false
	expectTimeoutChecked := false

	switch cause {
	case "pre:drop-before-CONNECT":
		accepted = false
		d.Drop()
	case "pre:non-CONNECT-first":
		accepted = false
		d.Send(env.Publish(1, "w", "WILL", 1, false, false))
	case "pre:malformed-CONNECT":
		accepted = false
		buf := make([]byte, conn.Len())
		conn.Encode(buf)
		buf[8] = 9 // protocol level 9
		d.Raw(buf)
	case "pre:connect-timeout":
		accepted = false
		w.Settle()
		d.BEnd.ExpireReadDeadline()
	case "pre:setup-fails":
		// authentication succeeds but the backend refuses the set-up: the client was never accepted
		accepted = false
		w.Rec.FailHook, w.Rec.FailAt = "Setup", 1
		d.Send(conn)
	case "pre:rejected-credentials":
		accepted = false
		conn.Password = "wrong"
		d.Send(conn)
	case "pre:CONNACK-write-fails":
		// authentication succeeded and Setup returned a session: the client had been accepted, the will is owed
		d.BEnd.FailSend(1, env.FailBefore)
		d.Send(conn)
	case "pre:backend-closing":
		accepted = false
		w.MB.Close(time.Second)
		d.Send(conn)
	default:
		d.Send(conn)
	}
	w.Run(online, helper, d)
	if !strings.HasPrefix(cause, "pre:") {
		if d.Connack == nil || d.Connack.ReturnCode != packet.ConnectionAccepted {
			x.Failf("setup", "not-accepted:"+sig, "the client under test was not accepted: %v", env.Shorts(d.Other))
			return
		}
		// read timeout requested from the connection: 1.5 x min(keep alive, maximum 5 min)
		want := 450 * time.Second
		if ka != 0 && time.Duration(ka)*time.Second < 300*time.Second {
			want = time.Duration(ka) * time.Second * 3 / 2
		}
		if got := d.BEnd.ReadTimeout; got != want {
			x.Failf("keepalive-timeout", fmt.Sprintf("read-timeout-%v-for-keepalive-%d", got, ka), "CONNECT with keep alive %d s: the broker requested a read timeout of %v, expected %v (1.5 x effective keep alive)", ka, got, want)
		}
		expectTimeoutChecked = true
		// bring the connection into the protocol state
		switch state {
		case "inbound-q1-open":
			w.Rec.HoldAcks = true
			d.Send(env.Publish(5, "x", "in1", 1, false, false))
		case "inbound-q2-open":
			d.NoRel = true
			d.Send(env.Publish(5, "x", "in2", 2, false, false))
		case "outbound-open":
			d.NoAck = true
			d.Send(env.Subscribe(2, packet.Subscription{Topic: "y", QOS: 2}))
			w.Run(online, helper, d)
			helper.Pub("y", "out1", 2, false)
			helper.Pub("y", "out2", 1, false)
		case "blocked-on-token":
			w.Rec.HoldAcks = true
			d.Send(env.Publish(5, "x", "in1", 1, false, false))
			d.Send(env.Publish(6, "x", "in2", 1, false, false))
		case "blocked-in-send":
			// the client stops reading and its socket buffer is full: the broker's next write to it blocks
			d.Send(env.Subscribe(2, packet.Subscription{Topic: "y", QOS: 0}))
			w.Run(online, helper, d)
			d.BEnd.Hold = true
			helper.Pub("y", "out0", 0, false)
		case "observer-queue-full":
			// the online observer stops acknowledging: one message in flight (window 1), one in its queue (capacity 1)
			online.NoAck = true
			helper.Pub("w", "fill1", 1, false)
			w.Run(online, helper, d)
			helper.Pub("w", "fill2", 1, false)
		}
		w.Run(online, helper, d)
		// strike
		switch cause {
		case "DISCONNECT":
			d.Send(packet.NewDisconnect())
			disconnectProcessed = true
		case "DISCONNECT-then-drop":
			d.Send(packet.NewDisconnect())
			d.Drop()
			disconnectProcessed = true
		case "DISCONNECT-close-fails":
			// the DISCONNECT is read and processed; closing the connection afterwards reports an error (the peer is gone
			// already, a final flush fails): the client did disconnect, no will is owed
			d.BEnd.CloseErr = errors.New("pipe: close failed")
			d.Send(packet.NewDisconnect())
			disconnectProcessed = true
		case "malformed-then-DISCONNECT":
			d.Raw([]byte{0x30, 0x02, 0x00}) // PUBLISH cut short
			d.Send(packet.NewDisconnect())
		case "drop":
			d.Drop()
		case "read-error":
			// the read that follows the next packet fails (packets that need no answer: the broker may be unable to write)
			d.BEnd.FailReceive()
			d.Send(env.Publish(0, "x", "noise", 0, false, false))
			d.Send(env.Publish(0, "x", "noise", 0, false, false))
		case "malformed-frame":
			d.Raw([]byte{0x3f, 0x00}) // PUBLISH with QoS 3
		case "oversized-frame":
			d.Conn.SetReadLimit(64)
			big := env.Publish(0, "x", strings.Repeat("z", 100), 0, false, false)
			d.Send(big)
		case "second-CONNECT":
			d.Send(creds(env.Connect("d", false, nil)))
		case "server-only-packet":
			s := packet.NewSuback()
			s.ID = 1
			s.ReturnCodes = []packet.QOS{0}
			d.Send(s)
		case "keepalive-expiry":
			d.BEnd.ExpireReadDeadline()
		case "takeover-clean", "takeover-unclean":
			n := w.NewClient("d")
			n.Send(creds(env.Connect("d", cause == "takeover-clean", nil)))
			w.Run(online, helper, d, n)
			if state == "observer-queue-full" {
				// the old connection's will waits for room in the observer's queue; the newcomer is acknowledged once it is through
				online.Flush()
				w.Run(online, helper, d, n)
			}
			if (n.Connack == nil || n.Connack.ReturnCode != 0) && len(stalled()) == 0 {
				x.Failf("takeover", "newcomer-not-accepted:"+sig, "the newcomer with the same client id was not accepted")
			}
		case "backend-close":
			done := false
			go func() { w.MB.Close(time.Minute); done = true }()
			w.Run(online, helper, d)
			if !done && len(stalled()) == 0 {
				x.Failf("shutdown-returns", "backend-close-blocked:"+sig, "MemoryBackend.Close has not returned at quiescence (threads: %v)", d.Live())
			}
		case "send-failure":
			d.BEnd.FailSend(1, env.FailBefore)
			d.Send(packet.NewPingreq())
			if pr.Real {
				// the PINGRESP is written by the flush timer, whose failure surfaces with the next write; a network
				// that fails writes does not keep serving reads: the peer is gone
				w.Run(online, helper, d)
				d.Drop()
			}
		case "engine-close":
			done := false
			srv.Close()
			go func() { w.Eng.Close(); done = true }()
			w.Run(online, helper, d)
			if !done {
				x.Failf("shutdown-returns", "engine-close-blocked:"+sig, "Engine.Close has not returned at quiescence")
			}
		case "token-timeout":
			if !vrt.FireNext() {
				x.Failf("setup", "no-timer:"+sig, "no token timeout is pending although the processor should be waiting for a publish token")
			}
		}
		switch cause {
		case "takeover-clean", "takeover-unclean", "backend-close", "engine-close", "token-timeout":
		default:
			if state == "blocked-on-token" {
				// the processor waits for a token and is not reading: the cause takes effect once a token frees
				// (the backend acknowledges the held publishes) and the processor reads again
				w.Run(online, helper, d)
				w.Rec.HoldAcks = false
				for len(w.Rec.Held) > 0 {
					w.Rec.ReleaseAck(0)
					w.Run(online, helper, d)
				}
			}
		}
	}
	w.Run(online, helper, d)
	if state == "observer-queue-full" {
		// the observer drains its queue again: a will that had to wait for room must now arrive
		online.Flush()
		w.Run(online, helper, d)
	}
	_ = expectTimeoutChecked
	if disconnectProcessed && !disconnectRead {
		// the DISCONNECT was still queued when the connection died: it does not count
		disconnectProcessed = false
		x.Note("disconnect-never-read")
	}

	// ----- oracle -----
	var wills []*env.Ev
	for _, e := range w.Rec.Calls("Publish", "") {
		if e.Tag == "WILL" {
			wills = append(wills, e)
		}
	}
	want := 0
	if accepted && !disconnectProcessed && cause != "engine-close" {
		want = 1
	}
	if st := stalled(); len(st) > 0 {
		if len(wills) != want {
			seen := map[string]bool{}
			for _, caller := range st {
				if seen[caller] {
					continue
				}
				seen[caller] = true
				x.Failf("will-count", "close-waits-for-blocked-write:caller="+caller, "%s: the connection never ends and the will is handed to the backend %d time(s), expected %d: %s waits inside transport.BaseConn.Close for the send mutex, which a Send blocked in the carrier's Write holds (the peer does not read); only closing the carrier would release that write",
					sig, len(wills), want, caller)
			}
		}
		x.Event(fmt.Sprintf("%s|%s|stalled", cause, state))
		x.Outcome("stalled")
		return
	}
	if len(wills) != want {
		x.Failf("will-count", fmt.Sprintf("%d-wills-want-%d:%s", len(wills), want, sig), "the will was handed to the backend %d time(s), expected %d (accepted=%v, DISCONNECT processed=%v, cause %s, state %s)\nbroker log: %v",
			len(wills), want, accepted, disconnectProcessed, cause, state, tail(w.Rec.LogEvents, 12))
	}
	for _, e := range wills {
		if e.Conn != d.Name {
			x.Failf("will-owner", "will-from-other-connection:"+sig, "the will was published on behalf of connection %s, not %s", e.Conn, d.Name)
		}
		if e.Msg.Topic != "w" || string(e.Msg.Payload) != "WILL" || e.Msg.QOS != wq || e.Msg.Retain != wr {
			x.Failf("will-intact", "will-altered:"+sig, "the will was published as %s, supplied was topic w payload WILL qos %d retain %v", e.Msg.String(), wq, wr)
		}
	}
	if cause == "engine-close" && (d.Closed() || online.Closed()) {
		x.Failf("engine-close-ends-nothing", "engine-close-closed-connection:"+sig, "Engine.Close closed an established connection")
	}
	// observers (only when exactly the expected single will was published: delivery itself is C06/C11)
	if len(wills) == want && cause != "backend-close" && cause != "pre:backend-closing" && cause != "engine-close" {
		got := 0
		for _, dl := range online.Got {
			if dl.Payload == "WILL" {
				got++
				if dl.QOS != wq || dl.Retain {
					x.Failf("will-delivery", "will-delivery-flags:"+sig, "online observer received the will as %s (published qos %d)", dl, wq)
				}
			}
		}
		if got != want {
			x.Failf("will-delivery", fmt.Sprintf("online-observer-got-%d-want-%d:%s", got, want, sig), "the online observer received %d copies of the will, expected %d", got, want)
		}
		// offline persistent observer: gets it after reconnecting if the will has QoS > 0
		off2 := w.NewClient("f")
		off2.Send(creds(env.Connect("f", false, nil)))
		late := w.NewClient("l")
		late.Send(creds(env.Connect("l", true, nil)))
		late.Send(env.Subscribe(1, packet.Subscription{Topic: "w", QOS: 1}))
		w.Run(online, helper, off2, late)
		got = 0
		for _, dl := range off2.Got {
			if dl.Payload == "WILL" {
				got++
			}
		}
		wantOff := 0
		if want == 1 && wq > 0 {
			wantOff = 1
		}
		if state == "observer-queue-full" {
			// the offline observer's queue (capacity 1) is full: dropping for it is within the documented capacity rule
			wantOff = got
		}
		if got != wantOff {
			x.Failf("will-delivery", fmt.Sprintf("offline-observer-got-%d-want-%d:%s", got, wantOff, sig), "the persistent observer that was offline received %d copies of the will after reconnecting, expected %d (will qos %d)", got, wantOff, wq)
		}
		got = 0
		for _, dl := range late.Got {
			if dl.Payload == "WILL" {
				got++
				if !dl.Retain {
					x.Failf("will-delivery", "late-observer-flag:"+sig, "a later subscriber received the retained will with the retain flag clear")
				}
			}
		}
		wantLate := 0
		if want == 1 && wr {
			wantLate = 1
		}
		if got != wantLate {
			x.Failf("will-delivery", fmt.Sprintf("late-observer-got-%d-want-%d:%s", got, wantLate, sig), "a subscriber arriving later received %d retained copies of the will, expected %d (will retain=%v)", got, wantLate, wr)
		}
	}
	if want == 1 {
		x.Note("will-published")
	}
	x.Event(fmt.Sprintf("%s|%s|wills=%d", cause, state, len(wills)))
	x.Outcome(fmt.Sprintf("wills=%d", len(wills)))
}

func tail(s []string, n int) []string {
	if len(s) > n {
		return s[len(s)-n:]
	}
	return s
}

func runC12(r *report.Report) {
	r.Assume("'accepted' := authentication succeeded and Setup returned a session (a failed CONNACK write still owes the will); a DISCONNECT counts once the broker has processed it",
		"Engine.Close by design ends no established connection and must publish nothing; the harness registers a fake acceptor so that Engine.Close has something to stop",
		"timers >= 100 ms are manual: keep-alive expiry and token timeout are events; takeover, backend shutdown and faults are events at quiescence, reordered inside by the deviation bound",
		"observer delivery clauses are evaluated only when the will count itself is right (delivery as such is C06/C11)")
	causes := append(append([]string{}, c12causes...), c12pre...)
	real := false
	mk := func(states []string, cs []string, qs []int) string {
		js, _ := json.Marshal(c12params{States: states, Causes: cs, WillQ: qs, Real: real})
		return string(js)
	}
	st := explore.Explore(explore.Config{Harness: "C12.will", Params: mk(c12states, causes, []int{0, 1, 2}), Bound: 0, Workers: report.Workers(), Deadline: r.Deadline()})
	r.AddExploration("causes-x-states", "history", fmt.Sprintf("%d termination causes x %d protocol states x will qos {0,1,2} x retain x keep-alive {0,10,600}, delay bound 0", len(causes), len(c12states)), st,
		"one execution = one (will, keep-alive, cause, state) combination on a fresh broker with an online, an offline-persistent and a late observer; non-trivial = combinations in which a will is due (counted)", "will-published")
	b := 1
	qs := []int{1}
	if r.Tier == "thorough" {
		qs = []int{0, 1, 2}
	}
	st = explore.Explore(explore.Config{Harness: "C12.will", Params: mk(c12states, causes, qs), Bound: b, Workers: report.Workers(), Deadline: r.Deadline()})
	r.AddExploration("causes-x-states-reordered", "history", fmt.Sprintf("the same combinations (will qos %v) with up to %d scheduling deviations inside each", qs, b), st,
		"as above; every placement of the deviation(s) over the broker's scheduling points", "will-published")
	// the same over the real transport.BaseConn (packet.Stream, buffered writer and flush timer, send / receive mutexes)
	real = true
	st = explore.Explore(explore.Config{Harness: "C12.will", Params: mk(c12states, causes, []int{0, 1, 2}), Bound: 0, Workers: report.Workers(), Deadline: r.Deadline()})
	r.AddExploration("causes-x-states-over-baseconn", "history", fmt.Sprintf("%d causes x %d states x will qos {0,1,2} x retain x keep-alive, the broker's connection being a transport.BaseConn over a byte-stream view of the pipe; delay bound 0", len(causes), len(c12states)), st,
		"as above; faults strike the carrier (read error, deadline expiry, write error, blocked write) and the real BaseConn has to turn them into a closed connection", "will-published")
	st = explore.Explore(explore.Config{Harness: "C12.will", Params: mk(c12states, causes, qs), Bound: b, Workers: report.Workers(), Deadline: r.Deadline()})
	r.AddExploration("causes-x-states-over-baseconn-reordered", "history", fmt.Sprintf("the same over transport.BaseConn (will qos %v) with up to %d scheduling deviations inside each", qs, b), st,
		"as above", "will-published")
	real = false
	if r.Tier == "thorough" {
		st = explore.Explore(explore.Config{Harness: "C12.will", Params: mk([]string{"idle", "inbound-q2-open", "outbound-open"}, c12causes, []int{1}), Bound: 2, Workers: report.Workers(), Deadline: r.Deadline()})
		r.AddExploration("causes-x-states-reordered2", "history", "16 post-acceptance causes x 3 states (will qos 1) with up to 2 scheduling deviations inside each", st,
			"as above", "will-published")
	}
}

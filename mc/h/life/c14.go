package life

import (
	"encoding/json"
	"fmt"
	"strings"
	"time"

	"github.com/256dpi/gomqtt/broker"
	"github.com/256dpi/gomqtt/packet"

	"verif/explore"
	"verif/h/env"
	"verif/report"
	"verif/vrt"
)

type c14params struct {
	Mode  string // hostile | shutdown | storm
	Len   int
	Conns int
	Real  bool // connections reach the broker as transport.BaseConn over a byte-stream view of the pipe
	Small bool // session queues of capacity 2 and four retained QoS 1 messages: a wide subscription overflows the hostile peer's own queue
}

func init() {
	report.Register("C14", report.Check{Level: "model_checking", QuickBudget: 240 * time.Second, ThoroughBudget: 25 * time.Minute, Run: runC14})
	explore.Register("C14.run", func(p string) explore.Harness {
		var pr c14params
		json.Unmarshal([]byte(p), &pr)
		return func(x *explore.X) {
			switch pr.Mode {
			case "hostile":
				hostile(x, pr)
			case "consumer":
				pr.Mode = "consumer"
				hostile(x, pr)
			case "shutdown":
				shutdownRace(x, pr)
			case "storm":
				storm(x, pr)
			}
		}
	})
}

/* ---------- lifecycle oracle shared by C13 / C14 ---------- */

// lifecycle checks, at quiescence, that every finished connection released
// its resources: threads gone, Terminate exactly once per successful Setup,
// closed signal fired.
func lifecycle(x *explore.X, w *env.World, ctx string) {
	for _, p := range w.Peers {
		setups := w.Rec.Calls("Setup", p.Name)
		terms := w.Rec.Calls("Terminate", p.Name)
		okSetups, failedSetups := 0, 0
		for _, e := range setups {
			if e.Ret != 0 && e.Err == nil {
				okSetups++
			} else if e.Ret != 0 {
				failedSetups++
			}
		}
		if len(terms) > 1 {
			x.Failf("terminate-once", "terminate-twice:"+ctx, "connection %s: Backend.Terminate was called %d times", p.Name, len(terms))
		}
		if !p.Closed() {
			if len(terms) > 0 {
				x.Failf("terminate-once", "terminate-while-open:"+ctx, "connection %s is still open but Backend.Terminate was called", p.Name)
			}
			continue
		}
		if live := p.Live(); len(live) > 0 {
			x.Failf("threads-released", "threads-left:"+ctx, "connection %s is closed but its broker threads are still alive: %v", p.Name, live)
			continue
		}
		switch {
		case okSetups >= 1 && len(terms) != 1:
			x.Failf("terminate-once", fmt.Sprintf("setup-ok-terminate-%d:%s", len(terms), ctx), "connection %s was set up by the backend and has ended, but Backend.Terminate was called %d times", p.Name, len(terms))
		case len(setups) == 0 && len(terms) != 0:
			x.Failf("terminate-once", "terminate-without-setup:"+ctx, "connection %s: Backend.Terminate was called although Setup never was", p.Name)
		}
		// closed signal
		var cl *broker.Client
		for _, e := range w.Rec.Evs {
			if e.Conn == p.Name && e.Client != nil {
				cl = e.Client
				break
			}
		}
		if cl != nil {
			select {
			case <-cl.Closed():
			default:
				x.Failf("closed-signal", "closed-not-fired:"+ctx, "connection %s has ended (all its threads are gone) but Client.Closed() has not fired", p.Name)
			}
		}
	}
	for _, e := range w.Rec.InProgress() {
		if e.Hook != "Dequeue" {
			x.Failf("no-stuck-hook", "stuck:"+e.Hook+":"+ctx, "backend hook %s entered for %s at quiescence and never returned", e.Hook, e.Conn)
		}
	}
}

/* ---------- hostile peer, history mode ---------- */

type hostileItem struct {
	name   string
	closes bool // the broker must close the hostile connection when it is connected (protocol violation / malformed)
	send   func(p *env.Client)
}

func rawPublish(topic string, qos byte, id uint16, payload string) []byte {
	body := []byte{byte(len(topic) >> 8), byte(len(topic))}
	body = append(body, topic...)
	if qos > 0 {
		body = append(body, byte(id>>8), byte(id))
	}
	body = append(body, payload...)
	hdr := []byte{0x30 | qos<<1}
	n := len(body)
	for {
		b := byte(n % 128)
		n /= 128
		if n > 0 {
			b |= 0x80
		}
		hdr = append(hdr, b)
		if n == 0 {
			break
		}
	}
	return append(hdr, body...)
}

func hostileAlphabet() []hostileItem {
	long := strings.Repeat("L", 65535)
	sub := func(id packet.ID, f string, q packet.QOS) func(p *env.Client) {
		return func(p *env.Client) { p.Send(env.Subscribe(id, packet.Subscription{Topic: f, QOS: q})) }
	}
	raw := func(b ...byte) func(p *env.Client) { return func(p *env.Client) { p.Raw(b) } }
	its := []hostileItem{
		{"CONNECT(again)", true, func(p *env.Client) { p.Send(env.Connect("hostile", true, nil)) }},
		{"CONNECT(will-empty-topic)", true, func(p *env.Client) {
			c := env.Connect("hostile2", true, nil)
			buf := make([]byte, c.Len()+6)
			// hand-made: will flag set, will topic length 0, will payload "x"
			b := []byte{0x10, 0, 0, 4, 'M', 'Q', 'T', 'T', 4, 0x06, 0, 0, 0, 2, 'h', '2', 0, 0, 0, 1, 'x'}
			b[1] = byte(len(b) - 2)
			_ = buf
			p.Raw(b)
		}},
		{"CONNACK", true, func(p *env.Client) { p.Send(packet.NewConnack()) }},
		{"PUBLISH(q0,'x')", false, func(p *env.Client) { p.Send(env.Publish(0, "x", "h0", 0, false, false)) }},
		{"PUBLISH(q1,65535,'x')", false, func(p *env.Client) { p.Send(env.Publish(65535, "x", "h1", 1, false, false)) }},
		{"PUBLISH(q2,1,'x',retain)", false, func(p *env.Client) { p.Send(env.Publish(1, "x", "h2", 2, true, false)) }},
		{"PUBLISH(q1,empty-topic)", false, func(p *env.Client) { p.Raw(rawPublish("", 1, 9, "he")) }},
		{"PUBLISH(q0,empty-topic)", false, func(p *env.Client) { p.Raw(rawPublish("", 0, 0, "he0")) }},
		{"PUBLISH(q1,topic '#')", false, func(p *env.Client) { p.Send(env.Publish(3, "#", "hw", 1, false, false)) }},
		{"PUBLISH(q0,topic 'a/+')", false, func(p *env.Client) { p.Send(env.Publish(0, "a/+", "hp", 0, false, false)) }},
		{"PUBLISH(q1,topic NUL)", false, func(p *env.Client) { p.Send(env.Publish(4, "\x00", "hn", 1, true, false)) }},
		{"PUBLISH(q1,topic 'a\\0b')", false, func(p *env.Client) { p.Send(env.Publish(5, "a\x00b", "hn2", 1, false, false)) }},
		{"PUBLISH(q1,64KiB-topic)", false, func(p *env.Client) { p.Send(env.Publish(6, long, "hl", 1, false, false)) }},
		{"PUBLISH(q0,64KiB-payload)", false, func(p *env.Client) { p.Send(env.Publish(0, "x", long, 0, false, false)) }},
		{"PUBACK(7)", false, func(p *env.Client) { p.Send(env.Puback(7)) }},
		{"PUBREC(65535)", false, func(p *env.Client) { p.Send(env.Pubrec(65535)) }},
		{"PUBREL(1)", false, func(p *env.Client) { p.Send(env.Pubrel(1)) }},
		{"PUBREL(9)", false, func(p *env.Client) { p.Send(env.Pubrel(9)) }},
		{"PUBCOMP(1)", false, func(p *env.Client) { p.Send(env.Pubcomp(1)) }},
		{"SUBSCRIBE('#':2)", false, sub(1, "#", 2)},
		{"SUBSCRIBE('':1)", false, sub(2, "", 1)},
		{"SUBSCRIBE(NUL:1)", false, sub(3, "\x00", 1)},
		{"SUBSCRIBE('a/#/b':0)", false, sub(4, "a/#/b", 0)},
		{"SUBSCRIBE(64KiB:1)", false, sub(65535, long, 1)},
		{"SUBACK", true, func(p *env.Client) { s := packet.NewSuback(); s.ID = 1; s.ReturnCodes = []packet.QOS{0}; p.Send(s) }},
		{"UNSUBSCRIBE('#')", false, func(p *env.Client) { p.Send(env.Unsubscribe(5, "#")) }},
		{"UNSUBSCRIBE('','nope')", false, func(p *env.Client) { p.Send(env.Unsubscribe(6, "", "nope")) }},
		{"UNSUBACK", true, func(p *env.Client) { u := packet.NewUnsuback(); u.ID = 1; p.Send(u) }},
		{"PINGREQ", false, func(p *env.Client) { p.Send(packet.NewPingreq()) }},
		{"PINGRESP", true, func(p *env.Client) { p.Send(packet.NewPingresp()) }},
		{"DISCONNECT", true, func(p *env.Client) { p.Send(packet.NewDisconnect()) }},
		{"raw:bad-flags", true, raw(0x61, 0x02, 0x00, 0x01)},               // PUBREL with flags 1
		{"raw:qos3", true, raw(0x36, 0x05, 0x00, 0x01, 'x', 0x00, 0x01)},   // PUBLISH QoS 3
		{"raw:bad-remaining-length", true, raw(0x30, 0xff, 0xff, 0xff, 0xff, 0x01)}, // 5-byte varint
		{"raw:truncated+EOF", true, func(p *env.Client) { p.Raw([]byte{0x82, 0x10, 0x00}); p.Drop() }},
		{"raw:limit+1", true, func(p *env.Client) { p.Raw(rawPublish("x", 0, 0, strings.Repeat("o", 2048))) }},
		{"raw:type0", true, raw(0x00, 0x00)},
		{"raw:type15", true, raw(0xf0, 0x00)},
		{"abrupt-close", true, func(p *env.Client) { p.Drop() }},
	}
	return its
}

var hookNames = []string{"Subscribe", "Unsubscribe", "Publish", "Dequeue", "Terminate", "Restore", "Setup", "Authenticate", "Publish(will)"}

// consumerAlphabet: the hostile peer as a misbehaving consumer of the witnesses' traffic (subscribes to the marker
// topic, withholds or misplaces acknowledgements, unsubscribes with messages still queued, comes and goes).
func consumerAlphabet() []hostileItem {
	oldest := func(p *env.Client) (packet.ID, packet.QOS) {
		for _, d := range p.Got {
			if d.QOS > 0 {
				return d.ID, d.QOS
			}
		}
		return 77, 1
	}
	return []hostileItem{
		{"SUBSCRIBE(markers:1)", false, func(p *env.Client) { p.NoAck = true; p.Send(env.Subscribe(21, packet.Subscription{Topic: "markers", QOS: 1})) }},
		{"SUBSCRIBE(markers:2)", false, func(p *env.Client) { p.NoAck = true; p.Send(env.Subscribe(22, packet.Subscription{Topic: "markers", QOS: 2})) }},
		{"UNSUBSCRIBE(markers)", false, func(p *env.Client) { p.Send(env.Unsubscribe(23, "markers")) }},
		{"ack-oldest", false, func(p *env.Client) {
			id, q := oldest(p)
			if q == 2 {
				p.Send(env.Pubrec(id))
			} else {
				p.Send(env.Puback(id))
			}
			for i, d := range p.Got {
				if d.ID == id {
					p.Got = append(p.Got[:i:i], p.Got[i+1:]...)
					break
				}
			}
		}},
		{"PUBCOMP(oldest)", false, func(p *env.Client) { id, _ := oldest(p); p.Send(env.Pubcomp(id)) }},
		{"PUBACK(unknown)", false, func(p *env.Client) { p.Send(env.Puback(4242)) }},
		{"DISCONNECT", true, func(p *env.Client) { p.Send(packet.NewDisconnect()) }},
		{"abrupt-close", true, func(p *env.Client) { p.Drop() }},
		// the peer stops reading (its socket buffer is full): the broker's next write to it blocks
		{"stop-reading", false, func(p *env.Client) { p.BEnd.Hold = true }},
		// ... and stays silent until the read deadline derived from its keep-alive passes
		{"keepalive-expiry", true, func(p *env.Client) { p.BEnd.ExpireReadDeadline() }},
		// the broker's next write to the peer fails (the read side stays silent)
		{"next-broker-write-fails", false, func(p *env.Client) { p.BEnd.FailSend(1, env.FailBefore) }},
		// a new connection presents the same client id while this one is still open (handled in hostile())
		{"takeover", true, nil},
	}
}

func hostile(x *explore.X, pr c14params) {
	w := env.NewWorld(x, func(m *broker.MemoryBackend) {
		m.SessionQueueSize = 32
		if pr.Small {
			m.SessionQueueSize = 2
			m.ClientInflightMessages = 1
		}
		if pr.Mode == "consumer" {
			m.ClientInflightMessages = 1
		}
	})
	w.Eng.ReadLimit = 70000
	w.Real = pr.Real
	w.Rec.FailConn = "hostile" // injected backend failures strike only calls made on behalf of the hostile peer
	w1 := w.NewClient("w1")
	w1.Connect(true, nil)
	w1.Send(env.Subscribe(1, packet.Subscription{Topic: "#", QOS: 1}))
	w2 := w.NewClient("w2")
	w2.Connect(true, nil)
	w.Run(w1, w2)
	if pr.Small {
		for i := 1; i <= 4; i++ {
			w2.Pub(fmt.Sprintf("r/%d", i), fmt.Sprintf("retained%d", i), 1, true)
			w.Run(w1, w2)
		}
	}
	w1.TakeGot()
	alpha := hostileAlphabet()
	if pr.Mode == "consumer" {
		alpha = consumerAlphabet()
	}
	var h, hold *env.Client
	var names []string
	nmark := 0
	connected := false
	limit := func(n int64) {
		h.BEnd.ReadLimit = n
		h.Conn.SetReadLimit(n)
	}
	dial := func(connect bool) {
		h = w.NewClient("hostile")
		limit(2000) // set by a smaller engine read limit would do the same; 64 KiB items go through a second dial below
		connected = false
		if connect {
			h.Connect(false, &packet.Message{Topic: "hostile/will", Payload: []byte("hwill"), QOS: 1})
			connected = true
		}
	}
	precon := pr.Mode == "consumer" || vrt.Choose(2, "hostile-connects-first") == 1
	dial(precon)
	w.Run(w1, w2, h)
	if precon {
		limit(70000)
	}
	for i := 0; i < pr.Len; i++ {
		// optionally make one backend hook fail for the hostile's next action
		nchoices := len(alpha) + 1
		if connected && pr.Mode != "consumer" {
			nchoices += len(hookNames)
		}
		k := vrt.Choose(nchoices, "hostile-event")
		name := ""
		switch {
		case k < len(alpha) && alpha[k].send == nil:
			// takeover: the old connection stays open on the peer's side; the broker has to end it
			name = alpha[k].name
			old := h
			dial(true)
			limit(70000)
			w.Run(w1, w2, h, old)
			if !old.Closed() && !(pr.Real && old.BEnd.Hold) {
				x.Failf("takeover-ends-old", "old-open-after-takeover after "+strings.Join(names, " ; "), "a new connection presented the hostile peer's client id but the old connection %s is still open at quiescence (newcomer answered: %v); blocked: %v", old.Name, h.Connack != nil, vrt.Blocked())
				return
			}
			if pr.Real && old.BEnd.Hold {
				hold = old // the stall check below looks at the connection whose write is blocked
			}
		case k < len(alpha):
			it := alpha[k]
			name = it.name
			if strings.HasPrefix(it.name, "raw:limit+1") {
				limit(2000)
			}
			it.send(h)
		case k == len(alpha):
			name = "reconnect"
			if !h.Closed() {
				h.Drop()
				w.Run(w1, w2, h)
			}
			dial(true)
			limit(70000)
		default:
			hook := hookNames[k-len(alpha)-1]
			name = "backend-fails:" + hook
			w.Rec.FailHook, w.Rec.FailAt = hook, 1
			// an action that reaches the hook
			switch hook {
			case "Subscribe":
				h.Send(env.Subscribe(9, packet.Subscription{Topic: "hs", QOS: 1}))
			case "Unsubscribe":
				h.Send(env.Unsubscribe(9, "hs"))
			case "Publish":
				h.Send(env.Publish(11, "x", "hf", 1, false, false))
			case "Dequeue":
				h.Send(env.Subscribe(9, packet.Subscription{Topic: "hq", QOS: 0}))
				h.Send(env.Publish(0, "hq", "hdq", 0, false, false))
			case "Terminate":
				h.Drop()
			case "Publish(will)":
				// the publication of the will at the end of the connection fails: the connection must still be terminated
				w.Rec.FailHook = "Publish"
				h.Drop()
			case "Restore", "Setup", "Authenticate":
				if !h.Closed() {
					h.Drop()
					w.Run(w1, w2, h)
				}
				w.Rec.FailHook, w.Rec.FailAt = hook, 1
				dial(true)
			}
		}
		names = append(names, name)
		w.Run(w1, w2, h)
		w.Rec.FailHook, w.Rec.FailAt = "", 0
		if hold == nil && h.BEnd.Hold {
			hold = h
		}
		if pr.Real && hold != nil && hold.BEnd.Hold && !hold.Closed() {
			// over the real BaseConn: somebody waits in BaseConn.Close for the send mutex that the blocked write holds
			// (identified by the caller of Close); the connection cannot end until the peer itself goes away
			seen := map[string]bool{}
			for _, caller := range env.ClosersBehindBlockedWrite() {
				if !seen[caller] {
					seen[caller] = true
					x.Failf("no-stall", "close-waits-for-blocked-write:caller="+caller, "after the hostile peer did: %s - %s waits inside transport.BaseConn.Close for the send mutex, which a Send blocked in the carrier's Write holds (the peer does not read); the connection's goroutines stay blocked for as long as the peer keeps the connection open; blocked: %v", strings.Join(names, " ; "), caller, vrt.Blocked())
				}
			}
			if len(seen) > 0 {
				return
			}
		}
		connected = !h.Closed()
		sig := name
		if len(names) > 1 {
			sig = names[len(names)-2] + " ; " + name
		}
		x.Logf("%-34s hostile-open=%v  <- %s", name, !h.Closed(), env.Shorts(h.Other[max(0, len(h.Other)-3):]))
		// witnesses: still connected, marker exchange works, every marker exactly once
		nmark++
		marker := fmt.Sprintf("marker%d", nmark)
		w2.Pub("markers", marker, 1, false)
		w.Run(w1, w2, h)
		if w1.Closed() || w2.Closed() {
			x.Failf("witness-undisturbed", "witness-closed after "+sig, "a witness connection was closed (w1 closed=%v by broker=%v, w2 closed=%v) after the hostile peer did: %s", w1.Closed(), w1.ClosedByBroker(), w2.Closed(), strings.Join(names, " ; "))
			return
		}
		cnt := 0
		for _, d := range w1.TakeGot() {
			if d.Payload == marker {
				cnt++
			}
		}
		if cnt != 1 {
			x.Failf("witness-undisturbed", fmt.Sprintf("marker-seen-%d-times after %s", cnt, sig), "witness w1 received the marker published by witness w2 %d times (expected once) after the hostile peer did: %s\nblocked: %v", cnt, strings.Join(names, " ; "), vrt.Blocked())
			return
		}
		x.Event(fmt.Sprintf("%s|open=%v", name, !h.Closed()))
	}
	h.Drop()
	w.Run(w1, w2, h)
	lifecycle(x, w, "hostile:"+names[len(names)-1])
	x.Note("hostile-sequence")
}

func max(a, b int) int {
	if a > b {
		return a
	}
	return b
}

/* ---------- shutdown racing with connection set-up, schedule mode ---------- */

func shutdownRace(x *explore.X, pr c14params) {
	w := env.NewWorld(x, nil)
	srv := env.NewFakeServer()
	w.Eng.Accept(srv)
	which := vrt.Choose(2, "what-shuts-down")
	// one established client, so that Close has somebody to close
	est := w.NewClient("e")
	est.Connect(false, &packet.Message{Topic: "w", Payload: []byte("ewill"), QOS: 1})
	w.Run(est)
	var cs []*env.Client
	for i := 0; i < pr.Conns; i++ {
		i := i
		c := w.NewClient(fmt.Sprintf("n%d", i))
		cs = append(cs, c)
		go func() {
			c.Connect(i%2 == 0, &packet.Message{Topic: "w", Payload: []byte("nwill"), QOS: 0})
		}()
	}
	closed := false
	go func() {
		if which == 0 {
			w.MB.Close(time.Minute)
		} else {
			srv.Close()
			w.Eng.Close()
		}
		closed = true
	}()
	w.Settle()
	if !closed {
		x.Failf("shutdown-returns", fmt.Sprintf("close-%d-blocked", which), "the shutdown call has not returned at quiescence; blocked: %v", vrt.Blocked())
	}
	all := append([]*env.Client{est}, cs...)
	w.Run(all...)
	for _, c := range all {
		if which == 0 && !c.Closed() {
			// a connection that slipped in before the backend started closing must have been closed by it; one that came later is refused
			x.Failf("shutdown-closes-all", "open-after-backend-close", "connection %s is still open after MemoryBackend.Close returned", c.Name)
		}
		c.Drop()
	}
	w.Run(all...)
	lifecycle(x, w, fmt.Sprintf("shutdown-%d", which))
	x.Note("raced")
	x.Outcome(fmt.Sprintf("which=%d", which))
}

/* ---------- connect / disconnect storm, schedule mode ---------- */

func storm(x *explore.X, pr c14params) {
	w := env.NewWorld(x, nil)
	w1 := w.NewClient("w1")
	w1.Connect(true, nil)
	w1.Send(env.Subscribe(1, packet.Subscription{Topic: "#", QOS: 1}))
	w.Run(w1)
	var cs []*env.Client
	for i := 0; i < pr.Conns; i++ {
		i := i
		c := w.NewClient([]string{"x", "x", "y"}[i%3]) // two of them share a client id
		cs = append(cs, c)
		go func() {
			c.Connect(i%2 == 0, &packet.Message{Topic: "w", Payload: []byte(fmt.Sprintf("will%d", i)), QOS: 1})
			c.Send(env.Publish(packet.ID(i+1), "s", fmt.Sprintf("storm%d", i), 1, false, false))
			if i%2 == 0 {
				c.Send(packet.NewDisconnect())
			} else {
				c.Drop()
			}
		}()
	}
	all := append([]*env.Client{w1}, cs...)
	w.Run(all...)
	if w1.Closed() {
		x.Failf("witness-undisturbed", "witness-closed-in-storm", "the witness was disconnected during a connect/disconnect storm")
	}
	for _, c := range cs {
		c.Drop()
	}
	w.Run(all...)
	lifecycle(x, w, "storm")
	x.Note("raced")
}

func runC14(r *report.Report) {
	r.Assume("hostile byte streams are a finite catalogue: all 14 types with boundary ids, topics/filters {empty, '#', 'a/+', NUL, 'a\\0b', 65535 bytes}, 64 KiB payload, malformed frames (bad flags, QoS 3, over-long remaining length, truncated+EOF, limit+1, type 0/15), abrupt close, reconnect, plus backend hooks failing at each call site",
		"two well-behaved witnesses exchange a QoS 1 marker after every hostile event; 'disturbed' = a witness connection closed or a marker not received exactly once",
		"the backend's own documented limitation (a connected client that does not drain its queue blocks publishers) is not exercised: witnesses acknowledge at once",
		"after a failed Setup both 0 and 1 Terminate calls are accepted (interface comment and property read differently)")
	mk := func(p c14params) string { js, _ := json.Marshal(p); return string(js) }
	n := 2 // (the thorough tier adds length 3 at the very end: by far the largest part)
	st := explore.Explore(explore.Config{Harness: "C14.run", Params: mk(c14params{Mode: "hostile", Len: n}), Bound: 0, Workers: report.Workers(), Deadline: r.Deadline()})
	r.AddExploration("hostile-sequences", "history", fmt.Sprintf("all sequences of %d hostile events over %d packets/frames + reconnect + %d failing backend hooks, started cold or after a valid CONNECT, delay bound 0", n, len(hostileAlphabet()), len(hookNames)), st,
		"one execution = one hostile sequence against a broker with two witnesses; marker exchange after every event, lifecycle clauses at the end; non-trivial = sequences completed (counted)", "hostile-sequence")
	cl := 4
	if r.Tier == "thorough" {
		cl = 6
	}
	st = explore.Explore(explore.Config{Harness: "C14.run", Params: mk(c14params{Mode: "consumer", Len: cl}), Bound: 0, Workers: report.Workers(), Deadline: r.Deadline()})
	r.AddExploration("hostile-consumer", "history", fmt.Sprintf("all sequences of %d events of a misbehaving consumer (subscribes to the witnesses' topic with window 1, withholds / misplaces acknowledgements, unsubscribes with messages queued, stops reading, lets its keep-alive expire, reconnects unclean), delay bound 0", cl), st,
		"as above", "hostile-sequence")
	st = explore.Explore(explore.Config{Harness: "C14.run", Params: mk(c14params{Mode: "hostile", Len: n, Real: true}), Bound: 0, Workers: report.Workers(), Deadline: r.Deadline()})
	r.AddExploration("hostile-sequences-over-baseconn", "history", fmt.Sprintf("the same sequences of %d hostile events with every connection a transport.BaseConn over a byte-stream view of the pipe (the real stream decoder sees the hostile bytes)", n), st, "as above", "hostile-sequence")
	st = explore.Explore(explore.Config{Harness: "C14.run", Params: mk(c14params{Mode: "consumer", Len: cl, Real: true}), Bound: 0, Workers: report.Workers(), Deadline: r.Deadline()})
	r.AddExploration("hostile-consumer-over-baseconn", "history", fmt.Sprintf("all sequences of %d misbehaving-consumer events (incl. stop-reading and keep-alive expiry) over transport.BaseConn: blocked writes, flush timer and send mutex are the real ones", cl), st, "as above, plus: nobody waits inside BaseConn.Close behind a blocked write", "hostile-sequence")
	st = explore.Explore(explore.Config{Harness: "C14.run", Params: mk(c14params{Mode: "hostile", Len: n, Small: true}), Bound: 0, Workers: report.Workers(), Deadline: r.Deadline()})
	r.AddExploration("hostile-sequences-small-queues", "history", fmt.Sprintf("the sequences of %d hostile events against a broker with session queues of capacity 2, window 1 and four retained QoS 1 messages (a wide subscription overflows the subscriber's own queue)", n), st, "as above", "hostile-sequence")
	st = explore.Explore(explore.Config{Harness: "C14.run", Params: mk(c14params{Mode: "hostile", Len: 1}), Bound: 1, Workers: report.Workers(), Deadline: r.Deadline()})
	r.AddExploration("hostile-single-reordered", "history", "every single hostile event with one scheduling deviation placed everywhere", st, "as above", "hostile-sequence")
	b := 2
	if r.Tier == "thorough" {
		b = 3
	}
	st = explore.Explore(explore.Config{Harness: "C14.run", Params: mk(c14params{Mode: "shutdown", Conns: 1}), Bound: b + 1, Workers: report.Workers(), Deadline: r.Deadline()})
	r.AddExploration("shutdown-vs-1-connect", "schedule", fmt.Sprintf("MemoryBackend.Close / Engine.Close racing with 1 CONNECT and 1 established client, delay bound %d", b+1), st, "every schedule within the bound; lifecycle clauses, no panic, Close returns; non-trivial = executions", "raced")
	st = explore.Explore(explore.Config{Harness: "C14.run", Params: mk(c14params{Mode: "shutdown", Conns: 2}), Bound: b, Workers: report.Workers(), Deadline: r.Deadline()})
	r.AddExploration("shutdown-vs-2-connects", "schedule", fmt.Sprintf("the same with 2 CONNECTs, delay bound %d", b), st, "as above", "raced")
	st = explore.Explore(explore.Config{Harness: "C14.run", Params: mk(c14params{Mode: "storm", Conns: 3}), Bound: b, Workers: report.Workers(), Deadline: r.Deadline()})
	r.AddExploration("storm-3-peers", "schedule", fmt.Sprintf("3 peers (two sharing a client id) connect, publish, disconnect/drop concurrently with a witness, delay bound %d", b), st, "as above", "raced")
	if r.Tier == "thorough" {
		n = 3
		st = explore.Explore(explore.Config{Harness: "C14.run", Params: mk(c14params{Mode: "hostile", Len: n}), Bound: 0, Workers: report.Workers(), Deadline: r.Deadline()})
		r.AddExploration("hostile-sequences-len3", "history", fmt.Sprintf("all sequences of %d hostile events over %d packets/frames + reconnect + %d failing backend hooks, started cold or after a valid CONNECT, delay bound 0", n, len(hostileAlphabet()), len(hookNames)), st, "as above", "hostile-sequence")
		st = explore.Explore(explore.Config{Harness: "C14.run", Params: mk(c14params{Mode: "hostile", Len: n, Real: true}), Bound: 0, Workers: report.Workers(), Deadline: r.Deadline()})
		r.AddExploration("hostile-sequences-len3-over-baseconn", "history", fmt.Sprintf("the same sequences of %d hostile events over transport.BaseConn", n), st, "as above", "hostile-sequence")
	}
}

package life

import (
	"encoding/json"
	"fmt"
	"sort"
	"strings"
	"time"

	"github.com/256dpi/gomqtt/broker"
	"github.com/256dpi/gomqtt/packet"

	"verif/explore"
	"verif/h/env"
	"verif/report"
	"verif/vrt"
)

type c13params struct {
	Newcomers int
	States    []string
	Real      bool // connections reach the broker as transport.BaseConn over a byte-stream view of the pipe
}

func init() {
	report.Register("C13", report.Check{Level: "model_checking", QuickBudget: 240 * time.Second, ThoroughBudget: 25 * time.Minute, Run: runC13})
	explore.Register("C13.killtimeout", func(p string) explore.Harness { return killTimeout })
	explore.Register("C13.takeover", func(p string) explore.Harness {
		var pr c13params
		json.Unmarshal([]byte(p), &pr)
		return func(x *explore.X) { takeover(x, pr) }
	})
}

var c13states = []string{"idle", "handshake-open-and-queued", "dying-at-the-same-moment", "disconnecting-at-the-same-moment", "blocked-in-send", "blocked-in-connack", "clean-session-queue-full", "two-handshakes-open"}

func takeover(x *explore.X, pr c13params) {
	state := pr.States[vrt.Choose(len(pr.States), "incumbent-state")]
	// clean / unclean mix of the newcomers
	mix := vrt.Choose(1<<pr.Newcomers, "clean-mix")
	vrt.Quiet(true) // set-up phase: default schedule only
	w := env.NewWorld(x, func(m *broker.MemoryBackend) {
		m.ClientInflightMessages = 1
		if state == "two-handshakes-open" {
			m.ClientInflightMessages = 3 // two messages in flight and room for one more: the raced one is sent to the newcomer next to the inherited ones
		}
		if state == "clean-session-queue-full" {
			m.SessionQueueSize = 1
		}
	})
	w.Real = pr.Real
	obs := w.NewClient("obs")
	obs.Connect(true, nil)
	obs.Send(env.Subscribe(1, packet.Subscription{Topic: "w", QOS: 1}))
	helper := w.NewClient("h")
	helper.Connect(true, nil)
	inc := w.NewClient("x")
	inc.NoAck = true
	if state == "blocked-in-connack" {
		// mid-handshake: the incumbent owns the id (Setup done) and its CONNACK cannot be written because it does not read.
		// The session exists beforehand so that the newcomers resume the same one in every state.
		pre := w.NewClient("x")
		pre.Connect(false, nil)
		pre.Send(env.Subscribe(1, packet.Subscription{Topic: "t", QOS: 1}))
		w.Run(obs, helper, pre)
		pre.Send(packet.NewDisconnect())
		w.Run(obs, helper, pre)
		inc.BEnd.Hold = true
		inc.Connect(false, &packet.Message{Topic: "w", Payload: []byte("will-inc"), QOS: 1})
	} else {
		// (in the last state the incumbent has a clean, i.e. temporary, session)
		inc.Connect(state == "clean-session-queue-full", &packet.Message{Topic: "w", Payload: []byte("will-inc"), QOS: 1})
		inc.Send(env.Subscribe(1, packet.Subscription{Topic: "t", QOS: 1}))
	}
	w.Run(obs, helper, inc)
	tags := []string{}
	if state == "blocked-in-send" {
		// the incumbent stops reading; the broker's next write to it blocks
		inc.Send(env.Subscribe(2, packet.Subscription{Topic: "t0", QOS: 0}))
		w.Run(obs, helper, inc)
		inc.BEnd.Hold = true
		helper.Pub("t0", "z0", 0, false)
		w.Run(obs, helper, inc)
	}
	if state == "handshake-open-and-queued" || state == "clean-session-queue-full" || state == "two-handshakes-open" {
		// (with a queue capacity of 1 the queue is now full: the concurrent publish below has to wait for room or for the
		// incumbent going away)
		helper.Pub("t", "m1", 1, false)
		w.Run(obs, helper, inc)
		helper.Pub("t", "m2", 1, false)
		w.Run(obs, helper, inc)
		tags = append(tags, "m1", "m2")
	}
	x.Logf("incumbent state %s, clean mix %b", state, mix)

	// contenders: the connection names of everybody using client id x, in dial order
	contenders := []*env.Client{inc}
	var news []*env.Client
	allUnclean := true
	for i := 0; i < pr.Newcomers; i++ {
		c := w.NewClient("x")
		c.NoAck = true
		news = append(news, c)
		contenders = append(contenders, c)
		if mix&(1<<i) != 0 {
			allUnclean = false
		}
	}
	// instant clause: when an accepting CONNACK is written to N, every other client of the id that was set up earlier is fully terminated
	for _, n := range news {
		n := n
		n.BEnd.OnSend = func(pkt packet.Generic) {
			ca, ok := pkt.(*packet.Connack)
			if !ok || ca.ReturnCode != packet.ConnectionAccepted {
				return
			}
			var mine *env.Ev
			for _, e := range w.Rec.Calls("Setup", n.Name) {
				mine = e
			}
			if mine == nil {
				return
			}
			for _, o := range contenders {
				if o == n {
					continue
				}
				for _, e := range w.Rec.Calls("Setup", o.Name) {
					if e.Ret == 0 || e.Err != nil || e.Ret > mine.Ret {
						continue // not set up, or set up after N
					}
					terms := w.Rec.Calls("Terminate", o.Name)
					if len(terms) == 0 || terms[0].Ret == 0 {
						x.Failf("old-terminated-before-connack", "connack-before-terminate:"+state, "CONNACK for %s is being written while %s (same client id, set up earlier) has not been terminated yet", n.Name, o.Name)
					}
				}
			}
		}
	}
	vrt.Quiet(false) // the race: every schedule within the bound
	for i, n := range news {
		i, n := i, n
		go func() {
			n.Connect(mix&(1<<i) != 0, &packet.Message{Topic: "w", Payload: []byte(fmt.Sprintf("will-n%d", i)), QOS: 1})
		}()
	}
	switch state {
	case "dying-at-the-same-moment":
		go func() { inc.Drop() }()
	case "disconnecting-at-the-same-moment":
		go func() { inc.Send(packet.NewDisconnect()) }()
	}
	// traffic towards the id throughout
	go func() { helper.Pub("t", "m3", 1, false) }()
	w.Settle()
	helper.Pump()
	obs.Pump()
	w.Settle()
	vrt.Quiet(true) // evaluation and epilogue

	for _, l := range w.Rec.Timeline() {
		x.Logf("  %s", l)
	}
	// ----- final quiescence -----
	if pr.Real && strings.HasPrefix(state, "blocked-") {
		// a goroutine waiting in BaseConn.Close for the send mutex held by the blocked write: identified by the caller of
		// Close; everything else in this execution (newcomer unanswered, Setup in progress) is a consequence of it
		if st := env.ClosersBehindBlockedWrite(); len(st) > 0 {
			seen := map[string]bool{}
			for _, caller := range st {
				if !seen[caller] {
					seen[caller] = true
					x.Failf("nothing-blocked", "close-waits-for-blocked-write:caller="+caller, "incumbent %s: %s waits inside transport.BaseConn.Close for the send mutex, which the Send blocked in the carrier's Write holds; the old connection is never terminated and no newcomer is answered (backend calls in progress: %d); blocked: %v", state, caller, len(w.Rec.InProgress()), vrt.Blocked())
				}
			}
			x.Outcome("stalled")
			return
		}
	}
	if state == "clean-session-queue-full" && !inc.Closed() {
		// the publish reached the full queue while the incumbent was still connected and nobody had begun to displace it:
		// MemoryBackend documents that a connected client that does not drain its queue blocks the backend ("will
		// eventually deadlock the broker"); the newcomers cannot even authenticate. Not a take-over any more.
		for _, e := range w.Rec.InProgress() {
			if e.Hook == "Publish" {
				x.Outcome("publisher-waits-on-full-queue-of-connected-client")
				return
			}
		}
	}
	var open []*env.Client
	for _, c := range contenders {
		if !c.Closed() {
			open = append(open, c)
		}
	}
	if len(open) != 1 {
		var names []string
		for _, c := range open {
			names = append(names, c.Name)
		}
		x.Failf("one-live-connection", fmt.Sprintf("%d-open:%s", len(open), state), "%d connections with client id x are open at quiescence %v (exactly one must survive); blocked threads: %v", len(open), names, vrt.Blocked())
		return
	}
	surv := open[0]
	if surv == inc {
		x.Failf("one-live-connection", "incumbent-survived:"+state, "the incumbent connection survived although newer connections presented the same client id")
	}
	for _, e := range w.Rec.InProgress() {
		if e.Hook == "Setup" {
			x.Failf("nothing-blocked", "setup-in-progress:"+state, "a Setup call for %s never returned (it could only be ended by the kill timeout); blocked: %v", e.Conn, vrt.Blocked())
		}
	}
	lifecycle(x, w, "takeover:"+state)
	// every accepted contender that ended (without DISCONNECT) published its will exactly once, before being terminated
	wills := map[string]int{}
	for _, e := range w.Rec.Calls("Publish", "") {
		if strings.HasPrefix(e.Tag, "will-") {
			wills[e.Conn]++
			if ts := w.Rec.Calls("Terminate", e.Conn); len(ts) > 0 && ts[0].T < e.T {
				x.Failf("will-before-terminate", "terminate-before-will:"+state, "connection %s was terminated before its will was published", e.Conn)
			}
		}
	}
	for _, c := range contenders {
		set := false
		for _, e := range w.Rec.Calls("Setup", c.Name) {
			if e.Ret != 0 && e.Err == nil {
				set = true
			}
		}
		want := 0
		if set && c != surv {
			want = 1
		}
		if c == inc && state == "disconnecting-at-the-same-moment" {
			// the DISCONNECT races with the takeover: 0 or 1 are both legitimate
			if wills[c.Name] > 1 {
				x.Failf("will-once", "two-wills:"+state, "connection %s published its will %d times", c.Name, wills[c.Name])
			}
			continue
		}
		if wills[c.Name] != want {
			x.Failf("will-once", fmt.Sprintf("%d-wills-want-%d:%s", wills[c.Name], want, state), "connection %s (accepted=%v, survivor=%v) published its will %d times, expected %d", c.Name, set, c == surv, wills[c.Name], want)
		}
	}
	// session continuity: with unclean newcomers only, nothing queued or in flight is lost or offered twice as new
	// (a clean incumbent's session legitimately ends with it)
	// in-flight state passes to the newcomer intact: nothing the survivor has not acknowledged yet shares its packet id
	// with another message (an id handed out twice overwrites the older message in the session)
	inflight := map[packet.ID]string{}
	for _, d := range surv.Got {
		if d.QOS == 0 {
			continue
		}
		if other, ok := inflight[d.ID]; ok && other != d.Payload {
			x.Failf("session-intact", "packet-id-reused-in-flight:"+state, "the surviving connection %s was sent %q and %q under the same packet id %d while neither was acknowledged", surv.Name, other, d.Payload, d.ID)
		}
		inflight[d.ID] = d.Payload
	}
	if allUnclean && state != "clean-session-queue-full" {
		tags = append(tags, "m3")
		for round := 0; round < 8; round++ {
			surv.Flush()
			w.Run(obs, helper, surv)
		}
		got := map[string]int{}
		nondup := map[string]int{}
		for _, c := range contenders {
			for _, d := range c.Got {
				got[d.Payload]++
				if !d.Dup {
					nondup[d.Payload]++
				}
			}
		}
		sget := map[string]int{}
		for _, d := range surv.Got {
			sget[d.Payload]++
		}
		sort.Strings(tags)
		for _, t := range tags {
			if sget[t] == 0 {
				x.Failf("session-intact", "message-lost:"+t+":"+state, "message %s (queued or in flight for client id x) never reached the surviving connection %s although it acknowledged everything; deliveries per tag over all contenders: %v", t, surv.Name, got)
			}
			if nondup[t] > 1 {
				x.Failf("session-intact", "message-offered-twice:"+t+":"+state, "message %s was sent %d times with the duplicate flag clear across the take-overs", t, nondup[t])
			}
		}
		if surv.Connack != nil && !surv.Connack.SessionPresent {
			x.Failf("session-intact", "session-not-present:"+state, "the surviving unclean connection was told session-present=false")
		}
		x.Note("session-continuity-checked")
	}
	x.Note("takeover")
	x.Outcome(fmt.Sprintf("survivor=%s", strings.Split(surv.Name, "#")[1]))
}

// killTimeout: an old connection that does not go away when it is closed (a write stuck below the transport). Every
// take-over attempt has to end in the kill timeout and be refused; no newcomer may be accepted while the old connection
// has not been terminated, however many attempts were refused before.
func killTimeout(x *explore.X) {
	clean := vrt.Choose(2, "incumbent-clean") == 1
	w := env.NewWorld(x, func(m *broker.MemoryBackend) { m.ClientInflightMessages = 1 })
	helper := w.NewClient("h")
	helper.Connect(true, nil)
	inc := w.NewClient("x")
	inc.Connect(clean, &packet.Message{Topic: "w", Payload: []byte("will-inc"), QOS: 1})
	inc.Send(env.Subscribe(1, packet.Subscription{Topic: "t0", QOS: 0}))
	w.Run(helper, inc)
	inc.BEnd.Hold, inc.BEnd.StickyHold = true, true
	helper.Pub("t0", "z0", 0, false)
	w.Run(helper, inc)
	terminated := func() bool {
		ts := w.Rec.Calls("Terminate", inc.Name)
		return len(ts) > 0 && ts[0].Ret != 0
	}
	attempts := 2 + vrt.Choose(2, "attempts")
	var news []*env.Client
	for i := 0; i < attempts; i++ {
		n := w.NewClient("x")
		news = append(news, n)
		n.Connect(vrt.Choose(2, "newcomer-clean") == 1, nil)
		w.Run(helper, inc, n)
		// let the kill timeout (and nothing else that is pending) pass
		for k := 0; k < 6 && len(w.Rec.InProgress()) > 0; k++ {
			if !vrt.FireNext() {
				break
			}
			w.Run(helper, inc, n)
		}
		if n.Connack != nil && n.Connack.ReturnCode == packet.ConnectionAccepted && !terminated() {
			x.Failf("old-terminated-before-connack", fmt.Sprintf("connack-while-old-alive:kill-timeout:attempt-%d", i+1), "take-over attempt %d (after %d refused by the kill timeout) received an accepting CONNACK although the old connection %s, whose write is stuck, has not been terminated: two connections with client id x are live", i+1, i, inc.Name)
			return
		}
		for _, e := range w.Rec.InProgress() {
			if e.Hook == "Setup" {
				x.Failf("nothing-blocked", "setup-in-progress:kill-timeout", "Setup for %s is still in progress after the kill timeout passed; blocked: %v", e.Conn, vrt.Blocked())
				return
			}
		}
	}
	// the stuck write finally fails: the old connection ends, its will is published once, and the id is free again
	inc.BEnd.Release()
	w.Run(append([]*env.Client{helper, inc}, news...)...)
	if !terminated() {
		x.Failf("one-live-connection", "old-never-terminated:kill-timeout", "the old connection's write was released but the connection was never terminated; blocked: %v", vrt.Blocked())
		return
	}
	last := w.NewClient("x")
	last.Connect(false, nil)
	w.Run(helper, inc, last)
	if last.Connack == nil || last.Connack.ReturnCode != packet.ConnectionAccepted {
		x.Failf("one-live-connection", "id-not-free-after-kill-timeouts", "after the old connection ended a new connection with client id x was not accepted")
	}
	lifecycle(x, w, "kill-timeout")
	x.Note("takeover")
	x.Outcome(fmt.Sprintf("attempts=%d", attempts))
}

func runC13(r *report.Report) {
	r.Assume("2-3 newcomers (quantifier: 2-8) present the incumbent's client id concurrently, as autonomous threads; clean/unclean mixes are all enumerated; a helper publishes towards the id at the same time",
		"incumbent states: idle; outbound QoS 1 handshake open with one more message queued behind a window of 1 (= parked on an exhausted window); dying by EOF at the same moment; sending DISCONNECT at the same moment; blocked in a send (the peer does not read); mid-handshake (Setup done, CONNACK write blocked); clean session with a full queue (a concurrent publish waits on it); two outbound handshakes open behind a window of 3",
		"kill timeout (5 s) is a manual timer that is never fired: a take-over that could only be ended by it shows up as a Setup call in progress at quiescence and is a violation",
		"schedules in which the concurrent publish reaches the full queue of the still connected, not yet displaced incumbent are the documented MemoryBackend limitation (a connected client that does not drain its queue blocks the backend) and are not judged; once the incumbent's connection has been closed the publish must get through",
		"session continuity is compared only when every newcomer is unclean (a clean newcomer legitimately discards the session)")
	mk := func(p c13params) string { js, _ := json.Marshal(p); return string(js) }
	b2, b3 := 2, 1
	if r.Tier == "thorough" {
		b2, b3 = 3, 2
	}
	st := explore.Explore(explore.Config{Harness: "C13.takeover", Params: mk(c13params{Newcomers: 2, States: c13states}), Bound: b2, Workers: report.Workers(), Deadline: r.Deadline()})
	r.AddExploration("2-newcomers", "schedule", fmt.Sprintf("2 concurrent CONNECTs with the incumbent's id x %d incumbent states x 4 clean mixes, all schedules within delay bound %d", len(c13states), b2), st,
		"one execution = one schedule; instant clause at every accepting CONNACK, survivor/lifecycle/will/session clauses at quiescence; non-trivial = executions (each is a race of >= 3 parties)", "takeover")
	st = explore.Explore(explore.Config{Harness: "C13.takeover", Params: mk(c13params{Newcomers: 3, States: c13states}), Bound: b3, Workers: report.Workers(), Deadline: r.Deadline()})
	r.AddExploration("3-newcomers", "schedule", fmt.Sprintf("3 concurrent CONNECTs x %d incumbent states x 8 clean mixes, delay bound %d", len(c13states), b3), st, "as above", "takeover")
	st = explore.Explore(explore.Config{Harness: "C13.takeover", Params: mk(c13params{Newcomers: 2, States: c13states, Real: true}), Bound: b3, Workers: report.Workers(), Deadline: r.Deadline()})
	r.AddExploration("2-newcomers-over-baseconn", "schedule", fmt.Sprintf("2 concurrent CONNECTs x %d incumbent states x 4 clean mixes, every connection a transport.BaseConn over a byte-stream view of the pipe, delay bound %d", len(c13states), b3), st, "as above; the stream decoder, buffered writer, flush timer and the send / receive mutexes of BaseConn take part in every schedule", "takeover")
	st = explore.Explore(explore.Config{Harness: "C13.killtimeout", Bound: 1, Workers: report.Workers(), Deadline: r.Deadline()})
	r.AddExploration("kill-timeout", "history", "an old connection whose write stays stuck even after Close (clean / unclean), 2-3 successive take-over attempts (clean / unclean) each ended by the kill timeout (fired as an event), then the write is released; one scheduling deviation placed everywhere", st,
		"no attempt is accepted while the old connection has not been terminated; Setup returns after the timeout; afterwards the old connection ends, lifecycle clauses hold and the id is free again", "takeover")
}

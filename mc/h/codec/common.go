// Package codec holds the input-enumeration checks of the packet codec: C01
// (round trip, Len() = bytes written, layout = reference encoding) and C02
// (the decoder is total, memory-safe, local and spec-faithful on arbitrary bytes).
package codec

import (
	"fmt"

	"github.com/256dpi/gomqtt/packet"

	"verif/ref"
)

// FromLib converts a library packet into the reference codec's neutral value.
func FromLib(g packet.Generic) *ref.Pkt {
	msg := func(m packet.Message) ref.Msg {
		return ref.Msg{Topic: m.Topic, Payload: m.Payload, QOS: byte(m.QOS), Retain: m.Retain}
	}
	switch p := g.(type) {
	case *packet.Connect:
		v := p.Version
		if v == 0 {
			v = 4
		}
		r := &ref.Pkt{Type: ref.CONNECT, Version: v, ClientID: p.ClientID, KeepAlive: p.KeepAlive, Clean: p.CleanSession,
			HasUser: p.Username != "", User: p.Username, HasPass: p.Password != "", Pass: p.Password}
		if p.Will != nil {
			m := msg(*p.Will)
			r.Will = &m
		}
		return r
	case *packet.Connack:
		return &ref.Pkt{Type: ref.CONNACK, SessionPresent: p.SessionPresent, ReturnCode: byte(p.ReturnCode)}
	case *packet.Publish:
		return &ref.Pkt{Type: ref.PUBLISH, Dup: p.Dup, Msg: msg(p.Message), ID: uint16(p.ID)}
	case *packet.Puback:
		return &ref.Pkt{Type: ref.PUBACK, ID: uint16(p.ID)}
	case *packet.Pubrec:
		return &ref.Pkt{Type: ref.PUBREC, ID: uint16(p.ID)}
	case *packet.Pubrel:
		return &ref.Pkt{Type: ref.PUBREL, ID: uint16(p.ID)}
	case *packet.Pubcomp:
		return &ref.Pkt{Type: ref.PUBCOMP, ID: uint16(p.ID)}
	case *packet.Unsuback:
		return &ref.Pkt{Type: ref.UNSUBACK, ID: uint16(p.ID)}
	case *packet.Subscribe:
		r := &ref.Pkt{Type: ref.SUBSCRIBE, ID: uint16(p.ID)}
		for _, s := range p.Subscriptions {
			r.Subs = append(r.Subs, ref.Sub{Topic: s.Topic, QOS: byte(s.QOS)})
		}
		return r
	case *packet.Suback:
		r := &ref.Pkt{Type: ref.SUBACK, ID: uint16(p.ID)}
		for _, c := range p.ReturnCodes {
			r.Codes = append(r.Codes, byte(c))
		}
		return r
	case *packet.Unsubscribe:
		return &ref.Pkt{Type: ref.UNSUBSCRIBE, ID: uint16(p.ID), Topics: p.Topics}
	case *packet.Pingreq:
		return &ref.Pkt{Type: ref.PINGREQ}
	case *packet.Pingresp:
		return &ref.Pkt{Type: ref.PINGRESP}
	case *packet.Disconnect:
		return &ref.Pkt{Type: ref.DISCONNECT}
	}
	panic(fmt.Sprintf("FromLib: unknown packet %T", g))
}

// norm removes the one distinction the library's Connect cannot represent: a user name / password flag with an empty string.
func norm(p *ref.Pkt) *ref.Pkt {
	q := *p
	q.HasUser = q.User != ""
	q.HasPass = q.Pass != ""
	return &q
}

func hexs(b []byte) string {
	if len(b) > 48 {
		return fmt.Sprintf("% x ... (%d bytes)", b[:48], len(b))
	}
	return fmt.Sprintf("% x", b)
}

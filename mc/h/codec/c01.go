package codec

import (
	"bytes"
	"fmt"
	"strings"
	"time"

	"github.com/256dpi/gomqtt/packet"

	"verif/explore"
	"verif/par"
	"verif/ref"
	"verif/report"
)

func init() {
	report.Register("C01", report.Check{Level: "exploration", QuickBudget: 240 * time.Second, ThoroughBudget: 25 * time.Minute, Run: runC01})
	explore.Register("C01.value", func(p string) explore.Harness {
		return func(x *explore.X) {
			found := false
			catalogueC01(true, func(name string, mk func() packet.Generic) {
				if name == p && !found {
					found = true
					x.Logf("value: %s", name)
					for _, f := range checkValue(name, mk()) {
						x.Failf(f.Clause, f.Sig, "%s", f.Msg)
					}
				}
			})
			if !found {
				x.Logf("value %q is not in the catalogue", p)
			}
		}
	})
}

func str(n int, c byte) string { return strings.Repeat(string(rune(c)), n) }

// rlBoundaries: remaining lengths on either side of every variable-length-integer boundary
var rlBoundaries = []int{127, 128, 16383, 16384, 2097151, 2097152}

// catalogueC01 enumerates the well-formed packet values ("well-formed" is defined here, not by the library).
func catalogueC01(full bool, emit func(name string, mk func() packet.Generic)) {
	// --- CONNECT
	lens := []int{1, 23, 127, 128}
	for _, ver := range []byte{3, 4} {
		for _, clean := range []bool{true, false} {
			cids := append([]int{}, lens...)
			if clean {
				cids = append(cids, 0)
			}
			for _, cl := range cids {
				for _, ka := range []uint16{0, 1, 65535} {
					for w := 0; w < 1+3*2*2*2; w++ {
						for up := 0; up < 5; up++ {
							ver, clean, cl, ka, w, up := ver, clean, cl, ka, w, up
							if !full && (cl == 23 || ka == 1) && w > 3 {
								continue
							}
							emit(fmt.Sprintf("CONNECT v%d clean=%v cid=%d ka=%d will=%d userpass=%d", ver, clean, cl, ka, w, up), func() packet.Generic {
								c := packet.NewConnect()
								c.Version, c.CleanSession, c.ClientID, c.KeepAlive = ver, clean, str(cl, 'c'), ka
								if w > 0 {
									k := w - 1
									c.Will = &packet.Message{QOS: packet.QOS(k % 3), Retain: k/3%2 == 1, Topic: str([]int{1, 128}[k/6%2], 't'), Payload: []byte(str([]int{0, 1}[k/12%2], 'p'))}
								}
								switch up {
								case 1:
									c.Username = "u"
								case 2:
									c.Username, c.Password = "u", "p"
								case 3:
									c.Username = str(128, 'U')
								case 4:
									c.Username, c.Password = str(128, 'U'), str(128, 'P')
								}
								return c
							})
						}
					}
				}
			}
		}
	}
	// field lengths reaching 65535, one at a time and all together
	for i := 0; i < 6; i++ {
		i := i
		emit(fmt.Sprintf("CONNECT 65535-byte field #%d", i), func() packet.Generic {
			c := packet.NewConnect()
			c.ClientID, c.Username, c.Password = "c", "u", "p"
			c.Will = &packet.Message{Topic: "t", Payload: []byte("p"), QOS: 1}
			big := str(65535, 'B')
			switch i {
			case 0:
				c.ClientID = big
			case 1:
				c.Will.Topic = big
			case 2:
				c.Will.Payload = []byte(big)
			case 3:
				c.Username = big
			case 4:
				c.Password = big
			case 5:
				c.ClientID, c.Will.Topic, c.Will.Payload, c.Username, c.Password = big, big, []byte(big), big, big
			}
			return c
		})
	}
	// binary data where the specification says "binary data": password, will payload, publish payload (every byte value,
	// also sequences that are not UTF-8) - and multi-byte UTF-8 in the string fields
	bin := make([]byte, 256)
	for i := range bin {
		bin[i] = byte(255 - i)
	}
	for i, b := range [][]byte{{0xff}, {0x00}, {0xc3, 0x28}, {0xed, 0xa0, 0x80}, bin} {
		i, b := i, b
		emit(fmt.Sprintf("CONNECT binary password / will payload #%d", i), func() packet.Generic {
			c := packet.NewConnect()
			c.ClientID, c.Username, c.Password = "c\u00e9\u65e5", "u\u00e9", string(b)
			c.Will = &packet.Message{Topic: "t/\u00e9", Payload: append([]byte{}, b...), QOS: 1}
			return c
		})
		emit(fmt.Sprintf("PUBLISH binary payload #%d", i), func() packet.Generic {
			p := packet.NewPublish()
			p.Message = packet.Message{Topic: "t/\u65e5\u672c", Payload: append([]byte{}, b...), QOS: 1}
			p.ID = 7
			return p
		})
	}
	// --- CONNACK
	for _, sp := range []bool{false, true} {
		for rc := 0; rc <= 5; rc++ {
			sp, rc := sp, rc
			emit(fmt.Sprintf("CONNACK sp=%v rc=%d", sp, rc), func() packet.Generic {
				c := packet.NewConnack()
				c.SessionPresent, c.ReturnCode = sp, packet.ConnackCode(rc)
				return c
			})
		}
	}
	// --- PUBLISH: flags x topic lengths x ids x payload lengths that put the remaining length on every boundary
	for f := 0; f < 12; f++ {
		dup, retain, qos := f&1 != 0, f&2 != 0, packet.QOS(f/4)
		for _, tl := range []int{1, 127, 128, 65535} {
			ids := []packet.ID{1, 256, 65535}
			if qos == 0 {
				ids = []packet.ID{0}
			}
			for _, id := range ids {
				fixed := 2 + tl
				if qos > 0 {
					fixed += 2
				}
				pls := map[int]bool{0: true, 1: true}
				for _, b := range rlBoundaries {
					if !full && b > 16384 && !(f == 5 && tl == 1 && id == 256) && !(f == 0 && tl == 127) {
						continue
					}
					for d := -1; d <= 1; d++ {
						if pl := b + d - fixed; pl >= 0 {
							pls[pl] = true
						}
					}
				}
				for pl := range pls {
					dup, retain, qos, tl, id, pl := dup, retain, qos, tl, id, pl
					emit(fmt.Sprintf("PUBLISH dup=%v retain=%v qos=%d topic=%d id=%d payload=%d", dup, retain, qos, tl, id, pl), func() packet.Generic {
						p := packet.NewPublish()
						p.Dup, p.ID = dup, id
						p.Message = packet.Message{Topic: str(tl, 't'), Payload: []byte(str(pl, 'x')), QOS: qos, Retain: retain}
						if pl == 0 && f%2 == 0 {
							p.Message.Payload = nil
						}
						return p
					})
				}
			}
		}
	}
	// --- every packet id for the id-only types and minimal PUBLISH / SUBSCRIBE / SUBACK / UNSUBSCRIBE
	step := 1
	if !full {
		step = 1 // all 65535 ids are cheap enough for the quick tier too
	}
	for id := 1; id <= 65535; id += step {
		id := packet.ID(id)
		emit(fmt.Sprintf("PUBACK id=%d", id), func() packet.Generic { p := packet.NewPuback(); p.ID = id; return p })
		emit(fmt.Sprintf("PUBREC id=%d", id), func() packet.Generic { p := packet.NewPubrec(); p.ID = id; return p })
		emit(fmt.Sprintf("PUBREL id=%d", id), func() packet.Generic { p := packet.NewPubrel(); p.ID = id; return p })
		emit(fmt.Sprintf("PUBCOMP id=%d", id), func() packet.Generic { p := packet.NewPubcomp(); p.ID = id; return p })
		emit(fmt.Sprintf("UNSUBACK id=%d", id), func() packet.Generic { p := packet.NewUnsuback(); p.ID = id; return p })
		emit(fmt.Sprintf("PUBLISH-min qos=%d id=%d", 1+int(id)%2, id), func() packet.Generic {
			p := packet.NewPublish()
			p.ID = id
			p.Message = packet.Message{Topic: "t", QOS: packet.QOS(1 + int(id)%2)}
			return p
		})
		emit(fmt.Sprintf("SUBSCRIBE-min id=%d", id), func() packet.Generic {
			p := packet.NewSubscribe()
			p.ID = id
			p.Subscriptions = []packet.Subscription{{Topic: "t", QOS: packet.QOS(int(id) % 3)}}
			return p
		})
		emit(fmt.Sprintf("SUBACK-min id=%d", id), func() packet.Generic {
			p := packet.NewSuback()
			p.ID = id
			p.ReturnCodes = []packet.QOS{[]packet.QOS{0, 1, 2, 0x80}[int(id)%4]}
			return p
		})
		emit(fmt.Sprintf("UNSUBSCRIBE-min id=%d", id), func() packet.Generic {
			p := packet.NewUnsubscribe()
			p.ID = id
			p.Topics = []string{"t"}
			return p
		})
	}
	// --- SUBSCRIBE / UNSUBSCRIBE lists of 1..3 entries over topic lengths {1,128} and all QoS vectors
	tls := []int{1, 128}
	for n := 1; n <= 3; n++ {
		for tm := 0; tm < 1<<n; tm++ {
			for qm := 0; qm < pow(3, n); qm++ {
				n, tm, qm := n, tm, qm
				emit(fmt.Sprintf("SUBSCRIBE n=%d topics=%b qos=%d", n, tm, qm), func() packet.Generic {
					p := packet.NewSubscribe()
					p.ID = 7
					q := qm
					for i := 0; i < n; i++ {
						p.Subscriptions = append(p.Subscriptions, packet.Subscription{Topic: str(tls[tm>>i&1], byte('a'+i)), QOS: packet.QOS(q % 3)})
						q /= 3
					}
					return p
				})
			}
			n, tm := n, tm
			emit(fmt.Sprintf("UNSUBSCRIBE n=%d topics=%b", n, tm), func() packet.Generic {
				p := packet.NewUnsubscribe()
				p.ID = 7
				for i := 0; i < n; i++ {
					p.Topics = append(p.Topics, str(tls[tm>>i&1], byte('a'+i)))
				}
				return p
			})
		}
	}
	// entry counts / topic sizes that put the remaining length on every boundary
	for _, b := range rlBoundaries {
		if !full && b > 16384 {
			continue
		}
		for d := -1; d <= 1; d++ {
			rl := b + d
			rl2 := rl
			emit(fmt.Sprintf("SUBSCRIBE rl=%d", rl), func() packet.Generic { return subscribeOfRL(rl2) })
			emit(fmt.Sprintf("UNSUBSCRIBE rl=%d", rl), func() packet.Generic { return unsubscribeOfRL(rl2) })
			emit(fmt.Sprintf("SUBACK rl=%d", rl), func() packet.Generic {
				p := packet.NewSuback()
				p.ID = 9
				for i := 0; i < rl2-2; i++ {
					p.ReturnCodes = append(p.ReturnCodes, []packet.QOS{0, 1, 2, 0x80}[i%4])
				}
				return p
			})
		}
	}
	// --- SUBACK: all code vectors over {0,1,2,0x80} up to length 4
	codes := []packet.QOS{0, 1, 2, 0x80}
	for n := 1; n <= 4; n++ {
		for m := 0; m < pow(4, n); m++ {
			n, m := n, m
			emit(fmt.Sprintf("SUBACK n=%d codes=%d", n, m), func() packet.Generic {
				p := packet.NewSuback()
				p.ID = 65535
				q := m
				for i := 0; i < n; i++ {
					p.ReturnCodes = append(p.ReturnCodes, codes[q%4])
					q /= 4
				}
				return p
			})
		}
	}
	// --- empty-body types
	emit("PINGREQ", func() packet.Generic { return packet.NewPingreq() })
	emit("PINGRESP", func() packet.Generic { return packet.NewPingresp() })
	emit("DISCONNECT", func() packet.Generic { return packet.NewDisconnect() })
}

func pow(b, e int) int {
	r := 1
	for ; e > 0; e-- {
		r *= b
	}
	return r
}

// subscribeOfRL builds a SUBSCRIBE whose remaining length is exactly rl (rl >= 6).
func subscribeOfRL(rl int) packet.Generic {
	p := packet.NewSubscribe()
	p.ID = 3
	left := rl - 2
	for left > 0 {
		// an entry costs 3 + len(topic); keep the rest representable (>= 4 or 0)
		tl := left - 3
		if tl > 60000 {
			tl = 60000
		}
		if r := left - 3 - tl; r > 0 && r < 4 {
			tl -= 4 - r
		}
		if tl < 1 {
			tl = 1
		}
		p.Subscriptions = append(p.Subscriptions, packet.Subscription{Topic: str(tl, 's'), QOS: packet.QOS(len(p.Subscriptions) % 3)})
		left -= 3 + tl
	}
	return p
}

func unsubscribeOfRL(rl int) packet.Generic {
	p := packet.NewUnsubscribe()
	p.ID = 3
	left := rl - 2
	for left > 0 {
		tl := left - 2
		if tl > 60000 {
			tl = 60000
		}
		if r := left - 2 - tl; r > 0 && r < 3 {
			tl -= 3 - r
		}
		if tl < 1 {
			tl = 1
		}
		p.Topics = append(p.Topics, str(tl, 'u'))
		left -= 2 + tl
	}
	return p
}

func fill(n int) []byte {
	b := make([]byte, n)
	for i := range b {
		b[i] = 0xA5
	}
	return b
}

func typeOf(name string) string { return strings.SplitN(name, " ", 2)[0] }

// checkValue runs every C01 clause on one packet value.
func checkValue(name string, p packet.Generic) (fails []explore.ClauseFail) {
	fail := func(clause, format string, a ...interface{}) {
		fails = append(fails, explore.ClauseFail{Clause: clause, Sig: clause + ":" + name, Msg: fmt.Sprintf("%s: ", name) + fmt.Sprintf(format, a...)})
	}
	defer func() {
		if r := recover(); r != nil {
			explore.EngineFault(r)
			fail("no-panic", "panic: %v", r)
		}
	}()
	want, err := ref.Encode(FromLib(p))
	if err != nil {
		fail("generator", "the reference codec cannot encode this value: %v", err)
		return
	}
	L := p.Len()
	if L != len(want) {
		fail("len-equals-bytes", "Len() = %d, the specified layout has %d bytes", L, len(want))
	}
	buf := fill(L)
	n, err := p.Encode(buf)
	if err != nil {
		fail("encode-succeeds", "Encode into a buffer of Len() = %d bytes failed: %v", L, err)
		return
	}
	if n != L {
		fail("len-equals-bytes", "Encode wrote %d bytes, Len() = %d", n, L)
	}
	if !bytes.Equal(buf[:n], want) {
		i := 0
		for i < n && i < len(want) && buf[i] == want[i] {
			i++
		}
		fail("layout", "encoded bytes differ from the specified layout at offset %d: got %s, want %s", i, hexs(buf[i:n]), hexs(want[i:]))
		return
	}
	// a larger buffer: same bytes, nothing written behind them
	big := fill(L + 9)
	n2, err := p.Encode(big)
	if err != nil || n2 != L || !bytes.Equal(big[:L], want) {
		fail("layout", "Encode into a larger buffer: n=%d err=%v", n2, err)
	} else if !bytes.Equal(big[L:], fill(9)) {
		fail("layout", "Encode wrote behind the packet: % x", big[L:])
	}
	// a buffer that is one byte short: no panic, no claim of success with all bytes
	if L > 0 {
		short := fill(L - 1)
		n3, err := p.Encode(short)
		if err == nil && n3 >= L {
			fail("short-buffer", "Encode into %d bytes reported success with n=%d", L-1, n3)
		}
	}
	// decode what was written
	q, err := p.Type().New()
	if err != nil {
		fail("decode-roundtrip", "Type.New failed: %v", err)
		return
	}
	m, err := q.Decode(want)
	if err != nil {
		fail("decode-roundtrip", "decoding the packet's own encoding failed: %v", err)
		return
	}
	if m != L {
		fail("decode-consumes-all", "Decode consumed %d of %d bytes", m, L)
	}
	if a, b := FromLib(p), FromLib(q); !ref.Equal(a, b) {
		fail("decode-roundtrip", "decoded packet differs from the original:\n  original %s\n  decoded  %s", a, b)
	}
	if q.Len() != L {
		fail("decode-roundtrip", "the decoded packet reports Len() = %d, the original %d", q.Len(), L)
	}
	// the same through the stream encoder / decoder (header detection, pooled buffer)
	var wire bytes.Buffer
	if err := packet.NewEncoder(&wire).Write(p, false); err != nil {
		fail("stream-roundtrip", "Encoder.Write failed: %v", err)
		return
	}
	if !bytes.Equal(wire.Bytes(), want) {
		fail("stream-roundtrip", "the stream encoder wrote %d bytes that differ from the specified layout (%d bytes)", wire.Len(), len(want))
		return
	}
	sq, err := packet.NewDecoder(&wire).Read()
	if err != nil {
		fail("stream-roundtrip", "Decoder.Read of the packet's own encoding failed: %v", err)
		return
	}
	if a, b := FromLib(p), FromLib(sq); !ref.Equal(a, b) {
		fail("stream-roundtrip", "the packet read from the stream differs from the original:\n  original %s\n  decoded  %s", a, b)
	}
	if wire.Len() != 0 {
		fail("stream-roundtrip", "Decoder.Read left %d bytes of the packet's encoding unread", wire.Len())
	}
	return
}

type c01job struct {
	name string
	mk   func() packet.Generic
}

func runC01(r *report.Report) {
	r.Assume("'well-formed' is defined by the generator: QoS 0 => id 0, password => user name, non-empty lists, lengths <= 65535, empty client id only with clean session",
		"the catalogue is a finite product (sizes in the parts below), swept completely; 2 MiB payloads are thinned in the quick tier to two flag combinations per boundary",
		"expected bytes come from the reference encoder in mc/ref/codec.go, written from the OASIS text")
	full := r.Tier == "thorough"
	t0 := r.Seconds()
	var nv int
	var viol []explore.Violation
	sig := map[string]bool{}
	perType := map[string]int{}
	var evals int64
	complete := par.Run(func(emit func(c01job)) {
		catalogueC01(full, func(name string, mk func() packet.Generic) { emit(c01job{name, mk}) })
	}, func(j c01job) []explore.ClauseFail {
		return checkValue(j.name, j.mk())
	}, func(j c01job, fs []explore.ClauseFail) {
		evals++
		perType[typeOf(j.name)]++
		for _, f := range fs {
			nv++
			k := f.Clause + typeOf(j.name)
			if !sig[k] || len(viol) < 40 {
				if !sig[k] {
					sig[k] = true
				}
				if len(viol) < 40 {
					viol = append(viol, explore.Violation{Harness: "C01.value", Params: j.name, Clause: f.Clause, Sig: f.Sig, Msg: f.Msg})
				}
			}
		}
	}, r.Deadline())
	r.Extra["values_per_type"] = perType
	r.AddSweep(report.Part{Name: "catalogue", Mode: "sweep", Bound: fmt.Sprintf("complete product catalogue, %d values", evals), Evaluations: evals, Nontrivial: evals,
		Rule: "every value: Len() vs bytes written vs reference layout (exact buffer, larger buffer, short buffer), decode of the encoding consumes all bytes and yields an equal packet, directly and through packet.Encoder / packet.Decoder; each value is distinct by construction", Exhaustive: complete, Wall: r.Seconds() - t0, Violations: nv}, viol)
	r.Sample("PUBLISH dup=true retain=false qos=1 topic=127 id=256 payload=16254 (remaining length 16385)")
	r.Sample("CONNECT v3 clean=false cid=128 ka=65535 will=13 userpass=4")
	// stream encoder / decoder with a poisoned buffer pool: every ordered pair (big, small) of a 40-value subset
	t0 = r.Seconds()
	var sub []c01job
	i := 0
	catalogueC01(false, func(name string, mk func() packet.Generic) {
		i++
		if (i%3001 == 1 || strings.HasPrefix(name, "CONNACK sp=true rc=5") || strings.HasPrefix(name, "PINGREQ")) && len(sub) < 40 {
			sub = append(sub, c01job{name, mk})
		}
	})
	nv = 0
	viol = nil
	pairs := int64(0)
	for _, a := range sub {
		for _, b := range sub {
			pairs++
			if f := poisoned(a, b); f != nil {
				nv++
				if len(viol) < 10 {
					viol = append(viol, explore.Violation{Harness: "C01.value", Params: b.name, Clause: f.Clause, Sig: f.Sig, Msg: f.Msg})
				}
			}
		}
	}
	r.AddSweep(report.Part{Name: "stream-with-poisoned-pool", Mode: "sweep", Bound: fmt.Sprintf("every ordered pair of %d catalogue values", len(sub)), Evaluations: pairs, Nontrivial: pairs,
		Rule: "packet A then packet B through packet.Encoder / packet.Decoder sharing the (deterministic LIFO) buffer pool: B's wire bytes and decoded value must not contain anything of A", Exhaustive: true, Wall: r.Seconds() - t0, Violations: nv}, viol)
}

// poisoned writes a then b through the stream encoder (the pooled buffer is reused) and reads them back.
func poisoned(a, b c01job) *explore.ClauseFail {
	var wire bytes.Buffer
	e := packet.NewEncoder(&wire)
	pa, pb := a.mk(), b.mk()
	if err := e.Write(pa, false); err != nil {
		return &explore.ClauseFail{Clause: "stream-roundtrip", Sig: "stream-write:" + a.name, Msg: fmt.Sprintf("Encoder.Write(%s) failed: %v", a.name, err)}
	}
	if err := e.Write(pb, false); err != nil {
		return &explore.ClauseFail{Clause: "stream-roundtrip", Sig: "stream-write:" + b.name, Msg: fmt.Sprintf("Encoder.Write(%s) failed: %v", b.name, err)}
	}
	wa, _ := ref.Encode(FromLib(pa))
	wb, _ := ref.Encode(FromLib(pb))
	if !bytes.Equal(wire.Bytes(), append(append([]byte{}, wa...), wb...)) {
		return &explore.ClauseFail{Clause: "stream-roundtrip", Sig: "stream-bytes:" + typeOf(a.name) + ">" + typeOf(b.name), Msg: fmt.Sprintf("%s then %s through the stream encoder: wire bytes are not the two specified encodings", a.name, b.name)}
	}
	d := packet.NewDecoder(&wire)
	for _, want := range []packet.Generic{pa, pb} {
		got, err := d.Read()
		if err != nil {
			return &explore.ClauseFail{Clause: "stream-roundtrip", Sig: "stream-read:" + b.name, Msg: fmt.Sprintf("%s then %s: Decoder.Read failed: %v", a.name, b.name, err)}
		}
		if !ref.Equal(FromLib(got), FromLib(want)) {
			return &explore.ClauseFail{Clause: "stream-roundtrip", Sig: "stream-value:" + typeOf(a.name) + ">" + typeOf(b.name), Msg: fmt.Sprintf("%s then %s through the stream: decoded %s, want %s", a.name, b.name, FromLib(got), FromLib(want))}
		}
	}
	return nil
}

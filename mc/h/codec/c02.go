package codec

import (
	"bytes"
	"encoding/hex"
	"fmt"
	"io"
	"time"

	"github.com/256dpi/gomqtt/packet"

	"verif/explore"
	"verif/par"
	"verif/ref"
	"verif/report"
)

func init() {
	report.Register("C02", report.Check{Level: "exploration", QuickBudget: 300 * time.Second, ThoroughBudget: 45 * time.Minute, Run: runC02})
	explore.Register("C02.input", func(p string) explore.Harness {
		return func(x *explore.X) {
			b, _ := hex.DecodeString(p)
			x.Logf("input: % x", b)
			for _, f := range checkInput(b, nil) {
				x.Failf(f.Clause, f.Sig, "%s", f.Msg)
			}
		}
	})
}

var allTypes = []byte{1, 2, 3, 4, 5, 6, 7, 8, 9, 10, 11, 12, 13, 14}

var typeNames = []string{"?", "CONNECT", "CONNACK", "PUBLISH", "PUBACK", "PUBREC", "PUBREL", "PUBCOMP", "SUBSCRIBE", "SUBACK", "UNSUBSCRIBE", "UNSUBACK", "PINGREQ", "PINGRESP", "DISCONNECT", "?"}

// suffixes appended to a packet's own bytes to embed it in a longer buffer
var suffixes = [][]byte{
	{0x00, 0x07, 0x61, 0x62, 0x63, 0x64, 0x65, 0x66, 0x67, 0x00, 0x01, 0x02},
	{0xff, 0xff, 0xff, 0xff, 0xff, 0xff},
	{0xc0, 0x00},
	{0x00, 0x01, 0x78, 0x01, 0x00, 0x02, 0x79, 0x7a, 0x02},
}

type decoded struct {
	ok  bool
	n   int
	pkt *ref.Pkt // neutral form of what the library decoded
	err error
	pan interface{}
}

func libDecode(src []byte, t byte) (d decoded) {
	defer func() {
		if r := recover(); r != nil {
			explore.EngineFault(r)
			d = decoded{pan: r}
		}
	}()
	q, err := packet.Type(t).New()
	if err != nil {
		return decoded{err: err}
	}
	n, err := q.Decode(src)
	if err != nil {
		return decoded{n: n, err: err}
	}
	return decoded{ok: true, n: n, pkt: FromLib(q)}
}

// class renders the shape of an input for violation signatures: type, flags, how the remaining length relates to the data.
func class(b []byte, t byte) string {
	if len(b) == 0 {
		return "empty"
	}
	typ, flags, rl, hl, ok := ref.Header(b)
	if !ok {
		return fmt.Sprintf("%s:no-header", typeNames[t&15])
	}
	rel := "="
	if hl+rl > len(b) {
		rel = ">"
	} else if hl+rl < len(b) {
		rel = "<"
	}
	return fmt.Sprintf("as-%s:hdr-%s:f%d:rl%s%s", typeNames[t&15], typeNames[typ&15], flags, bucket(rl), rel)
}

func bucket(n int) string {
	switch {
	case n <= 12:
		return fmt.Sprint(n)
	case n < 128:
		return "<128"
	case n < 16384:
		return "<16384"
	}
	return ">=16384"
}

// checkInput runs every C02 clause on one byte string, decoded as each of the given types (nil = the detected type,
// or all types for strings of at most 2 bytes).
func checkInput(b []byte, types []byte) (fails []explore.ClauseFail) {
	fail := func(clause string, t byte, format string, a ...interface{}) {
		fails = append(fails, explore.ClauseFail{Clause: clause, Sig: clause + ":" + class(b, t), Msg: fmt.Sprintf("input % x decoded as %s: ", clip(b), typeNames[t&15]) + fmt.Sprintf(format, a...)})
	}
	// failPast: the verdict depends on bytes that follow the packet's declared extent (locality clause); one signature per type
	failPast := func(t byte, format string, a ...interface{}) {
		fails = append(fails, explore.ClauseFail{Clause: "local", Sig: "local:" + typeNames[t&15] + ":reads-past-declared-extent", Msg: fmt.Sprintf("input % x decoded as %s: ", clip(b), typeNames[t&15]) + fmt.Sprintf(format, a...)})
	}
	// detection
	func() {
		defer func() {
			if r := recover(); r != nil {
			explore.EngineFault(r)
				fail("total", 0, "DetectPacket panicked: %v", r)
			}
		}()
		n, t := packet.DetectPacket(b)
		typ, _, rl, hl, ok := ref.Header(b)
		if ok && (n != hl+rl || byte(t) != typ) {
			fail("detect", typ, "DetectPacket = (%d, %d), the fixed header says length %d type %d", n, t, hl+rl, typ)
		}
		if !ok && len(b) < 2 && n != 0 {
			fail("detect", 0, "DetectPacket = %d on %d byte(s)", n, len(b))
		}
		if types == nil {
			if len(b) <= 2 {
				types = allTypes
			} else if len(b) > 0 {
				types = []byte{b[0] >> 4}
			}
		}
	}()
	for _, t := range types {
		if t < 1 || t > 14 {
			// reserved types: Type.New must refuse
			if _, err := packet.Type(t).New(); err == nil {
				fail("faithful", t, "Type(%d).New() succeeded for a reserved packet type", t)
			}
			continue
		}
		want, extent, werr := ref.Decode(b, t)
		orig := append([]byte{}, b...)
		d := libDecode(b, t)
		if d.pan != nil {
			fail("total", t, "Decode panicked: %v", d.pan)
			continue
		}
		if !bytes.Equal(b, orig) {
			fail("total", t, "Decode modified its input")
		}
		if d.n > len(b) || d.n < 0 {
			fail("bounded", t, "Decode reports %d bytes consumed of %d supplied", d.n, len(b))
		}
		// faithful: judged on the packet's own extent (framed), which is how the stream decoder calls Decode
		if werr == nil {
			fr := libDecode(append([]byte{}, b[:extent]...), t)
			if fr.pan != nil {
				fail("total", t, "Decode of the framed packet panicked: %v", fr.pan)
				continue
			}
			if !fr.ok {
				fail("faithful", t, "the reference decoder accepts the packet (%s) but the library rejects it: %v", want, fr.err)
			} else if !ref.Equal(norm(want), fr.pkt) {
				fail("faithful", t, "field values differ:\n  reference %s\n  library   %s", norm(want), fr.pkt)
			}
			// local: the same packet embedded in a longer buffer decodes the same
			variants := [][]byte{b}
			for _, sfx := range suffixes {
				variants = append(variants, append(append([]byte{}, b[:extent]...), sfx...))
			}
			for _, v := range variants {
				e := libDecode(v, t)
				if e.pan != nil {
					fail("total", t, "Decode of the embedded packet panicked: %v", e.pan)
				} else if e.ok != fr.ok || (e.ok && !ref.Equal(e.pkt, fr.pkt)) {
					failPast(t, "framed to its declared extent (%d bytes) the packet decodes to ok=%v %v; followed by % x it decodes to ok=%v %v (err %v)", extent, fr.ok, fr.pkt, clip(v[extent:]), e.ok, e.pkt, e.err)
					break
				} else if e.n > extent {
					fail("bounded", t, "Decode consumed %d bytes of a packet whose declared extent is %d", e.n, extent)
					break
				}
			}
			if fr.ok {
				fails = append(fails, afterDecode(b[:extent], t)...)
			}
		} else {
			// the reference rejects: the library must reject too - framed to the declared extent, and embedded
			_, _, rl, hl, hok := ref.Header(b)
			framedOK := false
			if hok && hl+rl <= len(b) {
				fr := libDecode(append([]byte{}, b[:hl+rl]...), t)
				if fr.pan != nil {
					fail("total", t, "Decode of the framed packet panicked: %v", fr.pan)
				} else if fr.ok {
					framedOK = true
					fail("faithful", t, "framed to its declared extent the reference rejects the packet (%v) but the library accepts it as %s", werr, fr.pkt)
				}
				if !framedOK {
					vs := [][]byte{b}
					for _, sfx := range suffixes[:2] {
						vs = append(vs, append(append([]byte{}, b[:hl+rl]...), sfx...))
					}
					for _, v := range vs {
						if e := libDecode(v, t); e.pan != nil {
							fail("total", t, "Decode of the embedded packet panicked: %v", e.pan)
						} else if e.ok {
							failPast(t, "the packet is rejected when framed to its declared extent (%d bytes: %v) but accepted as %s when followed by % x", hl+rl, werr, e.pkt, clip(v[hl+rl:]))
							break
						}
					}
				}
			} else if d.ok {
				fail("faithful", t, "the reference decoder rejects the input (%v) but the library accepts it as %s", werr, d.pkt)
			}
		}
	}
	return
}

func clip(b []byte) []byte {
	if len(b) > 40 {
		return b[:40]
	}
	return b
}

// afterDecode: the decoded packet owns its data and every admitted application message can be encoded again.
func afterDecode(framed []byte, t byte) (fails []explore.ClauseFail) {
	fail := func(clause string, format string, a ...interface{}) {
		fails = append(fails, explore.ClauseFail{Clause: clause, Sig: clause + ":" + class(framed, t), Msg: fmt.Sprintf("input % x: ", clip(framed)) + fmt.Sprintf(format, a...)})
	}
	defer func() {
		if r := recover(); r != nil {
			explore.EngineFault(r)
			fail("total", "panic after decoding: %v", r)
		}
	}()
	src := append([]byte{}, framed...)
	q, _ := packet.Type(t).New()
	if _, err := q.Decode(src); err != nil {
		return
	}
	before := FromLib(q).String()
	for i := range src {
		src[i] = 0xff
	}
	if after := FromLib(q).String(); after != before {
		fail("owned", "the decoded packet changed when the source buffer was overwritten:\n  before %s\n  after  %s", before, after)
	}
	// forwardable
	switch p := q.(type) {
	case *packet.Publish:
		buf := make([]byte, p.Len())
		if _, err := p.Encode(buf); err != nil {
			fail("forwardable", "the decoder admitted the PUBLISH but it cannot be encoded again: %v", err)
		}
	case *packet.Connect:
		if p.Will != nil {
			w := packet.NewPublish()
			w.Message = *p.Will
			if w.Message.QOS > 0 {
				w.ID = 1
			}
			buf := make([]byte, w.Len())
			if _, err := w.Encode(buf); err != nil {
				fail("forwardable", "the decoder admitted the will but it cannot be encoded as a PUBLISH: %v", err)
			}
		}
		// (the CONNECT itself is never forwarded: whether it can be encoded again is not part of the property)
	}
	return
}

// streamCheck: the same judgement through packet.Decoder.Read on an in-memory reader, followed by a second packet
// that recycles the pooled buffer (the first packet must not change).
func streamCheck(b []byte) (fails []explore.ClauseFail) {
	fail := func(clause string, format string, a ...interface{}) {
		t := byte(0)
		if len(b) > 0 {
			t = b[0] >> 4
		}
		fails = append(fails, explore.ClauseFail{Clause: clause, Sig: "stream-" + clause + ":" + class(b, t), Msg: fmt.Sprintf("stream % x: ", clip(b)) + fmt.Sprintf(format, a...)})
	}
	defer func() {
		if r := recover(); r != nil {
			explore.EngineFault(r)
			fail("total", "Decoder.Read panicked: %v", r)
		}
	}()
	typ, _, rl, hl, ok := ref.Header(b)
	if !ok || hl+rl > len(b) {
		return
	}
	follow := []byte{0x30, 0x0a, 0x00, 0x01, 0x7a, 0x5a, 0x5a, 0x5a, 0x5a, 0x5a, 0x5a, 0x5a} // PUBLISH "z" with 7 payload bytes
	stream := append(append([]byte{}, b[:hl+rl]...), follow...)
	d := packet.NewDecoder(bytes.NewReader(stream))
	p, err := d.Read()
	want, _, werr := ref.Decode(b[:hl+rl], typ)
	if typ < 1 || typ > 14 {
		werr = ref.ErrMalformed
	}
	if (err == nil) != (werr == nil) {
		fail("faithful", "Decoder.Read: library error %v, reference error %v", err, werr)
		return
	}
	if err != nil {
		return
	}
	before := FromLib(p).String()
	if !ref.Equal(norm(want), FromLib(p)) {
		fail("faithful", "Decoder.Read field values differ:\n  reference %s\n  library   %s", norm(want), FromLib(p))
	}
	if _, err := d.Read(); err != nil {
		fail("faithful", "the packet following it could not be read: %v", err)
	}
	if _, err := d.Read(); err != io.EOF {
		fail("faithful", "expected io.EOF at the end of the stream, got %v", err)
	}
	if after := FromLib(p).String(); after != before {
		fail("owned", "a packet returned by Decoder.Read changed when the next packet was read (pooled buffer reused):\n  before %s\n  after  %s", before, after)
	}
	return
}

type c02sweep struct {
	evals, accepted int64
	nv              int
	viol            []explore.Violation
	sigs            map[string]bool
}

func (s *c02sweep) collect(b []byte, fs []explore.ClauseFail) {
	for _, f := range fs {
		s.nv++
		k := f.Clause + "\x00" + f.Sig
		if !s.sigs[k] && len(s.viol) < 300 {
			s.sigs[k] = true
			s.viol = append(s.viol, explore.Violation{Harness: "C02.input", Params: hex.EncodeToString(b), Clause: f.Clause, Sig: f.Sig, Msg: f.Msg})
		}
	}
}

func accepted(b []byte) bool {
	if len(b) == 0 {
		return false
	}
	_, _, err := ref.Decode(b, b[0]>>4)
	return err == nil
}

// seeds: the encodings of the C01 catalogue values of at most maxLen bytes (one per distinct shape)
func seeds(maxLen int) [][]byte {
	var out [][]byte
	seen := map[string]bool{}
	catalogueC01(false, func(name string, mk func() packet.Generic) {
		if len(name) > 8 && (name[:6] == "PUBACK" || name[:6] == "PUBREC" || name[:6] == "PUBREL" || name[:7] == "PUBCOMP" || name[:8] == "UNSUBACK" || name[:9] == "SUBACK-mi" || name[:9] == "PUBLISH-m" || name[:9] == "SUBSCRIBE" && name[9] == '-' || name[:9] == "UNSUBSCRI" && len(name) > 11 && name[11] == '-') {
			// the id sweeps: keep three ids only
			var id int
			if _, err := fmt.Sscanf(name[len(name)-5:], "%d", &id); err == nil || true {
				if !(hasSuffix(name, "id=1") || hasSuffix(name, "id=256") || hasSuffix(name, "id=65535")) {
					return
				}
			}
		}
		p := mk()
		if p.Len() > maxLen {
			return
		}
		b, err := ref.Encode(FromLib(p))
		if err != nil || seen[string(b)] {
			return
		}
		seen[string(b)] = true
		out = append(out, b)
	})
	return out
}

func hasSuffix(s, sfx string) bool { return len(s) >= len(sfx) && s[len(s)-len(sfx):] == sfx }

func runC02(r *report.Report) {
	r.Assume("random and coverage-guided inputs of the quantifier are replaced by complete sweeps of the finite domains listed in the parts; every input is judged framed to its declared extent and embedded in longer buffers (4 suffixes)",
		"leniencies of the reference decoder (the library documents none): protocol 3.1 accepted; no UTF-8 / U+0000 / wildcard validation of strings; non-minimal remaining-length encodings accepted; DUP with QoS 0 accepted; bytes inside the declared remaining length after the last field of CONNECT / CONNACK ignored; empty filters in SUBSCRIBE / UNSUBSCRIBE accepted; a user-name / password flag with an empty string is not distinguished from an absent one",
		"expected values come from mc/ref/codec.go, written from the OASIS text")
	full := r.Tier == "thorough"
	run := func(name, bound, rule string, gen func(emit func([]byte)), stream bool) {
		t0 := r.Seconds()
		s := &c02sweep{sigs: map[string]bool{}}
		complete := par.Run(gen, func(b []byte) []explore.ClauseFail {
			fs := checkInput(b, nil)
			if stream {
				fs = append(fs, streamCheck(b)...)
			}
			return fs
		}, func(b []byte, fs []explore.ClauseFail) {
			s.evals++
			if accepted(b) {
				s.accepted++
			}
			s.collect(b, fs)
		}, r.Deadline())
		r.AddSweep(report.Part{Name: name, Mode: "sweep", Bound: bound, Evaluations: s.evals, Nontrivial: s.accepted,
			Rule: rule + "; non-trivial = inputs the reference decoder accepts (counted; the others exercise the rejection paths)", Exhaustive: complete, Wall: r.Seconds() - t0, Violations: s.nv}, s.viol)
	}
	// (a) every byte string of length <= 3
	run("all-strings-up-to-3-bytes", "all 16 843 009 byte strings of length 0..3; strings of <= 2 bytes through all 14 decoders, longer ones through the detected type's",
		"clauses total / bounded / detect / faithful / local / owned / forwardable on every string",
		func(emit func([]byte)) {
			emit([]byte{})
			for a := 0; a < 256; a++ {
				emit([]byte{byte(a)})
				for b := 0; b < 256; b++ {
					emit([]byte{byte(a), byte(b)})
					for c := 0; c < 256; c++ {
						emit([]byte{byte(a), byte(b), byte(c)})
					}
				}
			}
		}, false)
	// (b) headers: every first byte x remaining-length encodings x bodies
	lens := []int{0, 1, 2, 3, 4, 5, 6, 7, 8, 9, 10, 11, 12, 126, 127, 128, 129, 16383, 16384}
	if full {
		lens = append(lens, 16385, 2097151, 2097152)
	}
	run("headers", fmt.Sprintf("256 first bytes x remaining lengths %v in minimal and all padded (2-,3-,4-byte) encodings, over-long 5- and 6-byte encodings of the small values, plus 4 continuation bytes x bodies {missing, zeros, 0xff, RL-1, RL+1, ascending bytes}", lens),
		"every (type nibble, flag nibble, length encoding, body) combination, also through packet.Decoder.Read",
		func(emit func([]byte)) {
			for first := 0; first < 256; first++ {
				for _, rl := range lens {
					encs := [][]byte{minimalVarint(rl)}
					for pad := len(encs[0]) + 1; pad <= 4; pad++ {
						encs = append(encs, paddedVarint(rl, pad))
					}
					if rl == 0 {
						encs = append(encs, []byte{0x80, 0x80, 0x80, 0x80, 0x01}, []byte{0xff, 0xff, 0xff, 0xff}, []byte{0xff, 0xff, 0xff, 0xff, 0x00})
					}
					if rl <= 12 {
						// over-long length fields (5 and 6 bytes) whose value is small: malformed, whatever follows
						encs = append(encs, paddedVarint(rl, 5), paddedVarint(rl, 6))
					}
					for _, e := range encs {
						hdr := append([]byte{byte(first)}, e...)
						emit(hdr)
						for _, kind := range []int{0, 1, 2, 3, 4} {
							n := rl
							if kind == 3 {
								n = rl - 1
							}
							if kind == 4 {
								n = rl + 1
							}
							if n < 0 || (rl > 20000 && kind != 0) {
								continue
							}
							body := make([]byte, n)
							for i := range body {
								switch kind {
								case 1:
									body[i] = 0xff
								case 2:
									body[i] = byte(i)
								}
							}
							emit(append(append([]byte{}, hdr...), body...))
						}
					}
				}
			}
		}, true)
	// (c) radius-1 mutation neighbourhood of valid encodings
	maxSeed := 64
	sd := seeds(maxSeed)
	vals := []int{0x00, 0x01, 0x02, 0x03, 0x04, 0x06, 0x7f, 0x80, 0x81, 0xc0, 0xfe, 0xff, '+', '#', '/'} // incl. the characters that are special in topics
	if full {
		vals = nil
		for v := 0; v < 256; v++ {
			vals = append(vals, v)
		}
	}
	run("mutations-radius-1", fmt.Sprintf("%d seeds (catalogue encodings of <= %d bytes): every position x %d byte values, every truncation, 4 extensions, +-1/+-2/0/max edits of the remaining length and of every 2-byte field", len(sd), maxSeed, len(vals)),
		"each mutant framed and embedded, also through packet.Decoder.Read",
		func(emit func([]byte)) {
			for _, s := range sd {
				emit(s)
				for i := range s {
					for _, v := range vals {
						if byte(v) == s[i] {
							continue
						}
						m := append([]byte{}, s...)
						m[i] = byte(v)
						emit(m)
					}
					// bit flips
					for bit := 0; bit < 8; bit++ {
						m := append([]byte{}, s...)
						m[i] ^= 1 << bit
						emit(m)
					}
				}
				for t := 0; t < len(s); t++ {
					emit(append([]byte{}, s[:t]...))
				}
				for _, ext := range [][]byte{{0x00}, {0xff}, {0xc0, 0x00}, s} {
					emit(append(append([]byte{}, s...), ext...))
				}
				// length-field edits: the remaining length byte and every aligned/unaligned 2-byte field
				for _, dlt := range []int{-2, -1, 1, 2} {
					m := append([]byte{}, s...)
					m[1] = byte(int(m[1]) + dlt)
					emit(m)
				}
				for _, v := range []byte{0, 0x7f} {
					m := append([]byte{}, s...)
					m[1] = v
					emit(m)
				}
				for i := 2; i+1 < len(s); i++ {
					for _, e := range []struct{ hi, lo int }{{0, 0}, {0xff, 0xff}, {-1, -1}, {-2, 1}, {-2, 2}, {-2, -2}} {
						m := append([]byte{}, s...)
						switch {
						case e.hi >= 0:
							m[i], m[i+1] = byte(e.hi), byte(e.lo)
						case e.hi == -1:
							m[i+1]--
						default:
							m[i+1] = byte(int(m[i+1]) + e.lo)
						}
						emit(m)
					}
				}
			}
		}, true)
	// radius 2 for the short seeds (thorough)
	if full {
		var short [][]byte
		for _, s := range sd {
			if len(s) <= 16 {
				short = append(short, s)
			}
		}
		small := []int{0x00, 0x01, 0x02, 0x7f, 0x80, 0xff}
		run("mutations-radius-2", fmt.Sprintf("%d seeds of <= 16 bytes: every pair of positions x %d x %d byte values", len(short), len(small), len(small)),
			"each double mutant framed and embedded",
			func(emit func([]byte)) {
				for _, s := range short {
					for i := range s {
						for j := i + 1; j < len(s); j++ {
							for _, a := range small {
								for _, b := range small {
									m := append([]byte{}, s...)
									m[i], m[j] = byte(a), byte(b)
									emit(m)
								}
							}
						}
					}
				}
			}, false)
	}
	// (d) splices of two valid encodings
	sp := seeds(24)
	if len(sp) > 120 && !full {
		sp = sp[:120]
	}
	run("splices", fmt.Sprintf("every ordered pair of %d seeds (<= 24 bytes): s1||s2, and s1[:i]||s2[j:] for all i, j", len(sp)),
		"each splice framed and embedded",
		func(emit func([]byte)) {
			for _, a := range sp {
				for _, b := range sp {
					emit(append(append([]byte{}, a...), b...))
					if len(a) <= 12 && len(b) <= 12 || full {
						for i := 1; i < len(a); i++ {
							for j := 1; j < len(b); j++ {
								emit(append(append([]byte{}, a[:i]...), b[j:]...))
							}
						}
					}
				}
			}
		}, false)
	// (e) length-prefixed fields at and around the 16-bit maximum (a decoder that admits them must be able to forward them)
	run("maximum-length-fields", "PUBLISH topics / payloads, CONNECT client id / will topic / will payload / user name / password, SUBSCRIBE and UNSUBSCRIBE filters of 65534 and 65535 bytes, hand-assembled",
		"each input framed and embedded; the forwardable clause re-encodes every admitted PUBLISH and will",
		func(emit func([]byte)) {
			lp := func(n int, c byte) []byte {
				b := []byte{byte(n >> 8), byte(n)}
				for i := 0; i < n; i++ {
					b = append(b, c)
				}
				return b
			}
			frame := func(first byte, body []byte) []byte {
				return append(append([]byte{first}, minimalVarint(len(body))...), body...)
			}
			for _, n := range []int{65534, 65535} {
				emit(frame(0x30, append(lp(n, 't'), 'p')))                                     // PUBLISH q0, long topic
				emit(frame(0x32, append(append(lp(n, 't'), 0, 7), 'p')))                       // PUBLISH q1, long topic
				emit(frame(0x30, append(lp(1, 't'), lp(n, 'p')[2:]...)))                       // PUBLISH, long payload
				emit(frame(0x82, append(append([]byte{0, 7}, lp(n, 'f')...), 1)))              // SUBSCRIBE
				emit(frame(0xa2, append([]byte{0, 7}, lp(n, 'f')...)))                         // UNSUBSCRIBE
				hdr := []byte{0, 4, 'M', 'Q', 'T', 'T', 4}
				conn := func(flags byte, fields ...[]byte) []byte {
					b := append(append([]byte{}, hdr...), flags, 0, 10)
					for _, f := range fields {
						b = append(b, f...)
					}
					return frame(0x10, b)
				}
				emit(conn(0x02, lp(n, 'c')))                                                   // client id
				emit(conn(0x0e, lp(1, 'c'), lp(n, 'w'), lp(1, 'x')))                           // will topic
				emit(conn(0x0e, lp(1, 'c'), lp(1, 'w'), lp(n, 'x')))                           // will payload
				emit(conn(0xc2, lp(1, 'c'), lp(n, 'u'), lp(1, 'p')))                           // user name
				emit(conn(0xc2, lp(1, 'c'), lp(1, 'u'), lp(n, 'p')))                           // password
			}
		}, false)
	r.Sample("32 03 00 01 61 | 00 07  (PUBLISH QoS 1 whose remaining length ends before the packet id)")
	r.Sample("30 02 00 00  (PUBLISH with an empty topic)")
	r.Sample("10 0c 00 04 4d 51 54 54 04 02 00 00 00 00  (minimal CONNECT)")
}

func minimalVarint(n int) []byte {
	var out []byte
	for {
		d := byte(n % 128)
		n /= 128
		if n > 0 {
			d |= 0x80
		}
		out = append(out, d)
		if n == 0 {
			return out
		}
	}
}

// paddedVarint encodes n in exactly width bytes (non-minimal encoding with trailing zero groups).
func paddedVarint(n, width int) []byte {
	out := make([]byte, width)
	for i := 0; i < width; i++ {
		out[i] = byte(n % 128)
		n /= 128
		if i < width-1 {
			out[i] |= 0x80
		}
	}
	return out
}

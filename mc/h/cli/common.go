// Package cli holds the client-library harnesses (C09, C10, C17 and the
// client parts of C15): the real client.Client / client.Service driven through
// Config.Dialer against a scripted broker end of a codec pipe, with a
// recording / fault-injecting client.Session.
package cli

import (
	"errors"
	"fmt"
	"sort"
	"strings"

	"github.com/256dpi/gomqtt/client"
	"github.com/256dpi/gomqtt/packet"
	"github.com/256dpi/gomqtt/session"
	"github.com/256dpi/gomqtt/transport"

	"verif/explore"
	"verif/h/env"
	"verif/vrt"
)

var errSession = errors.New("injected session failure")
var errDial = errors.New("injected dial failure")

// recSession wraps a MemorySession: counts calls and fails the k-th one on request.
type recSession struct {
	*session.MemorySession
	calls  int
	failAt int // fail the n-th call from now (1 = next); 0 = never
	Log    []string
}

func (s *recSession) hit(what string) error {
	s.calls++
	s.Log = append(s.Log, what)
	if s.failAt > 0 {
		s.failAt--
		if s.failAt == 0 {
			return errSession
		}
	}
	return nil
}

func (s *recSession) NextID() packet.ID { return s.MemorySession.NextID() }
func (s *recSession) SavePacket(d session.Direction, p packet.Generic) error {
	if err := s.hit("Save"); err != nil {
		return err
	}
	return s.MemorySession.SavePacket(d, p)
}
func (s *recSession) LookupPacket(d session.Direction, id packet.ID) (packet.Generic, error) {
	if err := s.hit("Lookup"); err != nil {
		return nil, err
	}
	return s.MemorySession.LookupPacket(d, id)
}
func (s *recSession) DeletePacket(d session.Direction, id packet.ID) error {
	if err := s.hit("Delete"); err != nil {
		return err
	}
	return s.MemorySession.DeletePacket(d, id)
}
func (s *recSession) AllPackets(d session.Direction) ([]packet.Generic, error) {
	if err := s.hit("All"); err != nil {
		return nil, err
	}
	return s.MemorySession.AllPackets(d)
}
func (s *recSession) Reset() error {
	if err := s.hit("Reset"); err != nil {
		return err
	}
	return s.MemorySession.Reset()
}

// dump renders one direction of the store (no fault accounting).
func (s *recSession) dump(d session.Direction) string {
	var out []string
	vrt.Atomic(func() {
		all, _ := s.MemorySession.AllPackets(d)
		for _, p := range all {
			out = append(out, env.Short(p))
		}
	})
	sort.Strings(out)
	return strings.Join(out, " ")
}

// side is the harness' view of one connection the client opened: B is the scripted broker's end.
type side struct {
	B, C *env.End
	name string
}

// net is the scripted network: every Dial creates a fresh pipe.
type net struct {
	x       *explore.X
	conns   []*side
	failDial bool
	failFirstWrite bool
	onSend  func(pkt packet.Generic) // at the instant the client writes a packet
	onDial  func(s *side)            // a new connection was opened (before Dial returns)
}

func (n *net) Dial(url string) (transport.Conn, error) {
	if n.failDial {
		n.failDial = false
		return nil, errDial
	}
	name := fmt.Sprintf("conn%d", len(n.conns)+1)
	p := env.NewPipe("client:"+name, "broker:"+name, 256)
	s := &side{C: p.A, B: p.B, name: name}
	s.C.OnSend = func(pkt packet.Generic) {
		if n.onSend != nil {
			n.onSend(pkt)
		}
	}
	n.conns = append(n.conns, s)
	if n.onDial != nil {
		n.onDial(s)
	}
	if n.failFirstWrite {
		n.failFirstWrite = false
		s.C.FailSend(1, env.FailBefore)
	}
	return s.C, nil
}

func (n *net) cur() *side {
	if len(n.conns) == 0 {
		return nil
	}
	return n.conns[len(n.conns)-1]
}

// take returns what the client has written on the current connection since the last call.
func (s *side) take() []packet.Generic {
	var out []packet.Generic
	for {
		p := s.B.TryRecv()
		if p == nil {
			return out
		}
		out = append(out, p)
	}
}

func (s *side) open() bool { return s != nil && !s.B.LocalClosed && !s.C.LocalClosed }

// call runs an API call on its own thread and reports whether it had returned at quiescence.
type pendingCall struct {
	name string
	done bool
	err  error
}

func call(name string, f func() error) *pendingCall {
	pc := &pendingCall{name: name}
	go func() {
		pc.err = f()
		pc.done = true
	}()
	vrt.Quiesce()
	return pc
}

// watched future: a waiter thread blocks in Wait(0) until the future resolves.
type watched struct {
	what     string
	id       packet.ID
	qos      packet.QOS
	f        client.GenericFuture
	resolved bool
	err      error
	acked    bool // the harness sent the acknowledgement this future waits for (and the client read it)
	conn     int  // index of the connection it was obtained on
}

func watch(what string, f client.GenericFuture) *watched {
	w := &watched{what: what, f: f}
	go func() {
		w.err = f.Wait(0)
		w.resolved = true
	}()
	return w
}

func cfg(n *net, clean bool) *client.Config {
	c := client.NewConfigWithClientID("tcp://broker", "c")
	c.Dialer = n
	c.CleanSession = clean
	c.KeepAlive = "0s"
	c.MaxWriteDelay = 0
	return c
}

package cli

import (
	"encoding/json"
	"errors"
	"fmt"
	"sort"
	"strings"
	"time"

	"github.com/256dpi/gomqtt/client"
	"github.com/256dpi/gomqtt/packet"
	"github.com/256dpi/gomqtt/session"

	"verif/explore"
	"verif/h/env"
	"verif/report"
	"verif/vrt"
)

type c10params struct {
	Depth   int
	IDs     int
	QOS     []int
	Early   bool // AlwaysAnnounceOnPublish
	Reject  bool // the callback may return an error
	Faults  bool // client write failures
	Attempts bool // between two connections: attempts that end before CONNACK (CONNECT write fails / closed without an answer)
}

func init() {
	report.Register("C10", report.Check{Level: "model_checking", QuickBudget: 240 * time.Second, ThoroughBudget: 25 * time.Minute, Run: runC10})
	explore.Register("C10.hist", func(p string) explore.Harness {
		var pr c10params
		json.Unmarshal([]byte(p), &pr)
		return func(x *explore.X) { c10(x, pr) }
	})
}

var errRejected = errors.New("application rejects the message")

// one handshake the scripted broker has open towards the client
type inflight struct {
	id      packet.ID
	tag     string
	qos     packet.QOS
	gotRec  bool
	relSent bool // PUBREL sent on the current connection, PUBCOMP outstanding
	pubSent int  // PUBLISH frames sent on the current connection without PUBREC/PUBACK yet
}

type c10w struct {
	x        *explore.X
	pr       c10params
	n        *net
	sess     *recSession
	c        *client.Client
	cidx     int
	open     map[packet.ID]*inflight
	done     map[string]packet.QOS // handshakes the broker saw completed (PUBACK / PUBCOMP received)
	tagQOS   map[string]packet.QOS
	accepted map[string]int // callback invocations that returned nil, per tag
	rejected map[string]int
	order    []string // tags in the order the callback accepted them
	arrival  []string // tags in the order the broker first sent them (QoS 0/1 only)
	handed   []string // tags in the order the client handed them to the application callback (accepted or not)
	nmsg     int
	unkRel   int
	owed     map[packet.ID]int
	evname   string
	rejectedNow string // tag rejected during the current step
	closedByReject bool
}

func (s *c10w) conn() *side {
	if s.c == nil || s.cidx >= len(s.n.conns) {
		return nil
	}
	return s.n.conns[s.cidx]
}

func (s *c10w) connected() bool { cn := s.conn(); return cn != nil && cn.open() }

// newClient: a fresh Client on the shared session (what an application does to resume)
func (s *c10w) newClient() {
	s.c = client.New()
	s.c.Session = s.sess
	s.c.Callback = func(msg *packet.Message, err error) error {
		if err != nil || msg == nil {
			return nil
		}
		tag := string(msg.Payload)
		s.handed = append(s.handed, tag) // every hand-over to the application, whatever it answers
		if s.pr.Reject && vrt.Choose(2, "callback-answer") == 1 {
			s.rejected[tag]++
			s.rejectedNow = tag
			s.x.Note("rejected")
			return errRejected
		}
		s.accepted[tag]++
		s.order = append(s.order, tag)
		return nil
	}
}

// failedAttempt: a connection attempt on the shared session that ends before CONNACK - the CONNECT cannot be written, or
// the broker closes the connection without answering. Nothing was resumed, so nothing recorded in the session may change.
func (s *c10w) failedAttempt(writeFails bool) {
	s.newClient()
	s.cidx = len(s.n.conns)
	cl := s.c
	c := cfg(s.n, false)
	c.AlwaysAnnounceOnPublish = s.pr.Early
	s.n.failFirstWrite = writeFails
	call("Client.Connect", func() error { _, err := cl.Connect(c); return err })
	s.n.failFirstWrite = false
	if cn := s.conn(); cn != nil {
		cn.take()
		if cn.open() {
			cn.B.Close()
		}
	}
	vrt.Quiesce()
	if cn := s.conn(); cn != nil {
		cn.take()
	}
}

func (s *c10w) connect() bool {
	s.newClient()
	s.cidx = len(s.n.conns)
	cl := s.c
	c := cfg(s.n, false)
	c.AlwaysAnnounceOnPublish = s.pr.Early
	pc := call("Client.Connect", func() error { _, err := cl.Connect(c); return err })
	if !pc.done || pc.err != nil {
		s.x.Failf("setup", "connect", "connect failed: done=%v err=%v", pc.done, pc.err)
		return false
	}
	cn := s.conn()
	cn.take()
	ca := packet.NewConnack()
	ca.SessionPresent = s.cidx > 0
	cn.B.Send(ca, false)
	vrt.Quiesce()
	for _, h := range s.open {
		h.relSent = false
		h.pubSent = 0
	}
	s.unkRel = 0
	s.owed = map[packet.ID]int{}
	return true
}

// pump: what the client wrote since last time
func (s *c10w) pump() string {
	cn := s.conn()
	if cn == nil {
		return ""
	}
	out := cn.take()
	for _, pkt := range out {
		if id, ok := packet.GetID(pkt); ok && s.owed[id] > 0 {
			s.owed[id]--
		}
		switch p := pkt.(type) {
		case *packet.Puback:
			if h := s.open[p.ID]; h != nil && h.qos == 1 {
				if s.rejected[h.tag] > 0 && s.accepted[h.tag] == 0 {
					s.x.Failf("no-ack-on-rejection", "puback-after-rejection", "the application rejected %s, yet PUBACK(%d) was written", h.tag, p.ID)
				}
				s.done[h.tag] = 1
				delete(s.open, p.ID)
			}
		case *packet.Pubrec:
			if h := s.open[p.ID]; h != nil && h.qos == 2 {
				h.gotRec = true
				h.pubSent = 0
				if s.pr.Early && s.rejected[h.tag] > 0 && s.accepted[h.tag] == 0 {
					s.x.Failf("no-ack-on-rejection", "pubrec-after-rejection", "the application rejected %s (announce-on-publish mode), yet PUBREC(%d) was written", h.tag, p.ID)
				}
			}
		case *packet.Pubcomp:
			if h := s.open[p.ID]; h != nil && h.qos == 2 && h.gotRec {
				if !s.pr.Early && s.rejected[h.tag] > 0 && s.accepted[h.tag] == 0 {
					s.x.Failf("no-ack-on-rejection", "pubcomp-after-rejection", "the application rejected %s, yet PUBCOMP(%d) was written", h.tag, p.ID)
				}
				s.done[h.tag] = 2
				delete(s.open, p.ID)
			} else if p.ID == 9 && s.unkRel > 0 {
				s.unkRel--
			}
		}
	}
	return env.Shorts(out)
}

func (s *c10w) check() {
	if !s.pr.Early {
		for tag, n := range s.accepted {
			if s.tagQOS[tag] == 2 && n > 1 {
				s.x.Failf("qos2-exactly-once", "delivered-twice", "QoS 2 message %s was passed to the application %d times (rejected deliveries not counted)", tag, n)
			}
		}
		for tag, q := range s.done {
			if q == 2 && s.accepted[tag] != 1 {
				s.x.Failf("qos2-exactly-once", fmt.Sprintf("completed-with-%d-deliveries", s.accepted[tag]), "the QoS 2 handshake of %s completed (PUBCOMP written) with %d accepted deliveries to the application", tag, s.accepted[tag])
			}
			if q == 1 && s.accepted[tag] < 1 {
				s.x.Failf("qos1-delivered", "acked-without-delivery", "QoS 1 message %s was acknowledged (PUBACK) without being passed to the application", tag)
			}
		}
	}
	// handshake steps are answered on a live connection
	if s.connected() && s.rejectedNow == "" {
		for id, h := range s.open {
			if h.pubSent > 0 && h.qos == 2 {
				s.x.Failf("publish-answered", "no-pubrec", "QoS 2 PUBLISH(%d) for %s was sent on a live connection and no PUBREC came back (after %s)", id, h.tag, s.evname)
			}
			if h.pubSent > 0 && h.qos == 1 {
				s.x.Failf("publish-answered", "no-puback", "QoS 1 PUBLISH(%d) for %s was sent on a live connection and no PUBACK came back (after %s)", id, h.tag, s.evname)
			}
			if h.relSent {
				s.x.Failf("pubrel-answered", "no-pubcomp", "PUBREL(%d) for %s was sent on a live connection and no PUBCOMP came back (after %s)", id, h.tag, s.evname)
			}
		}
		if s.unkRel > 0 {
			s.x.Failf("pubrel-answered", "no-pubcomp-for-unknown-id", "PUBREL for a packet id the client does not know was not answered by PUBCOMP (after %s)", s.evname)
		}
	}
	// a rejection closes the connection
	if s.rejectedNow != "" {
		if s.connected() {
			s.x.Failf("rejection-closes", "open-after-rejection", "the application rejected %s but the connection is still open", s.rejectedNow)
		}
		s.rejectedNow = ""
	}
	// QoS 0 / 1 messages reach the application in arrival order, per QoS level (C15, client part): the first hand-overs
	// (accepted or rejected - a rejected message comes again later as a duplicate) follow the order of first transmission
	for _, lvl := range []packet.QOS{0, 1} {
		var got, sent []string
		seen := map[string]bool{}
		for _, t := range s.handed {
			if s.tagQOS[t] == lvl && !seen[t] {
				seen[t] = true
				got = append(got, t)
			}
		}
		for _, t := range s.arrival {
			if s.tagQOS[t] == lvl {
				sent = append(sent, t)
			}
		}
		pos := -1
		idx := map[string]int{}
		for i, t := range sent {
			idx[t] = i
		}
		for _, t := range got {
			if idx[t] < pos {
				s.x.Failf("callback-order", "callback-out-of-order", "QoS %d messages were handed to the application as %v, the broker first sent them as %v", lvl, got, sent)
				break
			}
			pos = idx[t]
		}
	}
}

func c10(x *explore.X, pr c10params) {
	s := &c10w{x: x, pr: pr, open: map[packet.ID]*inflight{}, done: map[string]packet.QOS{}, tagQOS: map[string]packet.QOS{},
		accepted: map[string]int{}, rejected: map[string]int{}, owed: map[packet.ID]int{}}
	s.n = &net{x: x}
	s.sess = &recSession{MemorySession: session.NewMemorySession()}
	if !s.connect() {
		return
	}
	for step := 0; step < pr.Depth; step++ {
		var evs []string
		if !s.connected() {
			evs = append(evs, "reconnect")
			if pr.Attempts {
				evs = append(evs, "attempt-connect-write-fails", "attempt-closed-before-connack")
			}
		} else {
			for id := packet.ID(1); id <= packet.ID(pr.IDs); id++ {
				h := s.open[id]
				if h == nil {
					if s.owed[id] > 0 {
						continue
					}
					for _, q := range pr.QOS {
						evs = append(evs, fmt.Sprintf("publish-new(%d,q%d)", id, q))
					}
				} else if !h.gotRec {
					evs = append(evs, fmt.Sprintf("publish-dup(%d)", id))
				} else {
					evs = append(evs, fmt.Sprintf("pubrel(%d)", id))
				}
			}
			evs = append(evs, "pubrel-unknown(9)", "drop")
			if pr.Faults {
				evs = append(evs, "fail-next-client-write-before", "fail-next-client-write-after")
			}
		}
		ev := evs[vrt.Choose(len(evs), "event")]
		s.evname = ev
		var id packet.ID
		var q int
		name := ev
		if i := strings.Index(ev, "("); i >= 0 {
			name = ev[:i]
			fmt.Sscanf(ev[i:], "(%d,q%d)", &id, &q)
			if q == 0 && !strings.Contains(ev, ",q0") {
				fmt.Sscanf(ev[i:], "(%d)", &id)
			}
		}
		cn := s.conn()
		switch name {
		case "reconnect":
			if !s.connect() {
				return
			}
			x.Note("resume")
		case "attempt-connect-write-fails":
			s.failedAttempt(true)
			x.Note("failed-attempt")
		case "attempt-closed-before-connack":
			s.failedAttempt(false)
			x.Note("failed-attempt")
		case "publish-new":
			s.nmsg++
			h := &inflight{id: id, tag: fmt.Sprintf("m%d", s.nmsg), qos: packet.QOS(q)}
			s.tagQOS[h.tag] = h.qos
			if h.qos < 2 {
				s.arrival = append(s.arrival, h.tag)
			}
			if h.qos > 0 {
				s.open[id] = h
				h.pubSent++
				s.owed[id]++
			}
			var pid packet.ID
			if h.qos > 0 {
				pid = id
			}
			cn.B.Send(env.Publish(pid, "t", h.tag, h.qos, false, false), false)
		case "publish-dup":
			h := s.open[id]
			h.pubSent++
			s.owed[id]++
			cn.B.Send(env.Publish(id, "t", h.tag, h.qos, false, true), false)
			x.Note("retransmission")
		case "pubrel":
			h := s.open[id]
			if h.relSent {
				x.Note("retransmission")
			}
			h.relSent = true
			s.owed[id]++
			cn.B.Send(env.Pubrel(id), false)
		case "pubrel-unknown":
			s.unkRel++
			cn.B.Send(env.Pubrel(9), false)
		case "drop":
			cn.B.Close()
			x.Note("fault")
		case "fail-next-client-write-before":
			cn.C.FailSend(1, env.FailBefore)
			x.Note("fault")
		case "fail-next-client-write-after":
			cn.C.FailSend(1, env.FailAfter)
			x.Note("fault")
		}
		vrt.Quiesce()
		got := s.pump()
		// acknowledgements answered: clear the per-connection flags
		for _, h := range s.open {
			if h.gotRec {
				h.pubSent = 0
			}
		}
		for id2, h := range s.open {
			_ = id2
			if h.relSent && s.done[h.tag] == 2 {
				h.relSent = false
			}
		}
		x.Logf("%-30s client wrote: %-36s callback accepted=%v rejected=%v session.in=[%s]", ev, got, s.order, keys(s.rejected), s.sess.dump(session.Incoming))
		s.check()
		x.Event(fmt.Sprintf("%v|%d|%s|%v", s.connected(), len(s.open), s.sess.dump(session.Incoming), len(s.order)))
		if x.Failed() {
			return
		}
	}
	if len(s.done) > 0 {
		x.Note("handshake-completed")
	}
}

func keys(m map[string]int) []string {
	var k []string
	for s := range m {
		k = append(k, s)
	}
	sort.Strings(k)
	return k
}

func runC10(r *report.Report) {
	r.Assume("the scripted broker is protocol-conformant: a new PUBLISH only for a packet id without open handshake and without responses still owed on the connection, PUBREL only after PUBREC; retransmissions at any time",
		"exactly-once is claimed for the default callback mode only; in announce-on-publish mode only the acknowledgement clauses are evaluated",
		"the callback's answer (accept / reject) is an environment choice at every invocation; a 'resume' is a new Client on the same Session with session-present CONNACK",
		"deliveries the application rejects are not counted")
	mk := func(p c10params) string { js, _ := json.Marshal(p); return string(js) }
	type c struct {
		name  string
		p     c10params
		bound int
	}
	cfgs := []c{{"default-2ids", c10params{Depth: 7, IDs: 2, QOS: []int{1, 2}, Faults: true}, 0}, {"default-reject", c10params{Depth: 6, IDs: 1, QOS: []int{0, 1, 2}, Reject: true, Faults: true}, 0},
		{"early-mode", c10params{Depth: 6, IDs: 1, QOS: []int{1, 2}, Early: true, Reject: true, Faults: true}, 0}, {"default-3ids", c10params{Depth: 6, IDs: 3, QOS: []int{2}}, 0},
		{"default-reordered", c10params{Depth: 5, IDs: 1, QOS: []int{1, 2}, Faults: true}, 1},
		{"default-failed-attempts", c10params{Depth: 7, IDs: 1, QOS: []int{1, 2}, Attempts: true}, 0}}
	if r.Tier == "thorough" {
		cfgs = []c{{"default-2ids", c10params{Depth: 9, IDs: 2, QOS: []int{0, 1, 2}, Faults: true}, 0}, {"default-reject", c10params{Depth: 8, IDs: 2, QOS: []int{0, 1, 2}, Reject: true, Faults: true}, 0},
			{"early-mode", c10params{Depth: 8, IDs: 2, QOS: []int{1, 2}, Early: true, Reject: true, Faults: true}, 0}, {"default-3ids", c10params{Depth: 8, IDs: 3, QOS: []int{1, 2}}, 0},
			{"default-reordered", c10params{Depth: 6, IDs: 2, QOS: []int{1, 2}, Faults: true}, 1}, {"default-reordered2", c10params{Depth: 5, IDs: 1, QOS: []int{2}, Reject: true}, 2},
			{"default-failed-attempts", c10params{Depth: 9, IDs: 2, QOS: []int{1, 2}, Attempts: true, Faults: true}, 0}}
	}
	for _, cf := range cfgs {
		st := explore.Explore(explore.Config{Harness: "C10.hist", Params: mk(cf.p), Bound: cf.bound, Workers: report.Workers(), Deadline: r.Deadline()})
		r.AddExploration(cf.name, "history", fmt.Sprintf("all broker scripts of depth %d over %d packet ids, qos %v, announce-on-publish %v, rejecting callback %v, client write faults %v, connection attempts ending before CONNACK %v, delay bound %d", cf.p.Depth, cf.p.IDs, cf.p.QOS, cf.p.Early, cf.p.Reject, cf.p.Faults, cf.p.Attempts, cf.bound), st,
			"one execution = one broker script incl. the callback's answers; clauses at every quiescence; non-trivial = fault, retransmission, resume and rejection events (counted)", "fault", "retransmission", "resume", "rejected", "failed-attempt")
	}
	// the closed system: this client against the real broker (package h/e2e) - also the conformance check of the scripted broker above
	de := 5
	if r.Tier == "thorough" {
		de = 7
	}
	st := explore.Explore(explore.Config{Harness: "E2E.hist", Params: fmt.Sprintf(`{"Depth":%d,"QOS":[1,2],"Faults":true}`, de), Bound: 0, Workers: report.Workers(), Deadline: r.Deadline(),
		OnlyClauses: []string{"qos2-exactly-once", "qos1-at-least-once", "nothing-invented", "setup"}})
	r.AddExploration("end-to-end", "history", fmt.Sprintf("real client library (publisher, subscriber) <-> real broker over codec pipes: all histories of depth %d over {publish QoS 1/2, drop / write failure / broker write failure on either connection, reconnect with the same session}, then both sides reconnect", de), st,
		"at the subscribing application's callback: every QoS 2 message at most once, and exactly once / at least once (QoS 1) if Client.Publish accepted it; nothing arrives that was not published; non-trivial = histories with a publish / with a fault", "published", "fault")
}

package cli

import (
	"encoding/json"
	"fmt"
	"sort"
	"strings"
	"time"

	"github.com/256dpi/gomqtt/client"
	"github.com/256dpi/gomqtt/packet"
	"github.com/256dpi/gomqtt/session"

	"verif/explore"
	"verif/h/env"
	"verif/report"
	"verif/vrt"
)

type c17params struct {
	Depth  int
	Faults bool // dial refused, CONNECT unwritable, refused CONNACK, rejected subscription, missing CONNACK
	Stops  bool // Stop / Start in the alphabet
}

func init() {
	report.Register("C17", report.Check{Level: "model_checking", QuickBudget: 240 * time.Second, ThoroughBudget: 25 * time.Minute, Run: runC17})
	explore.Register("C17.hist", func(p string) explore.Harness {
		var pr c17params
		json.Unmarshal([]byte(p), &pr)
		return func(x *explore.X) { c17(x, pr) }
	})
}

// an API call made on the service, in issue order
type cmd struct {
	kind  string // sub | unsub | pub
	topic string
	tag   string
	qos   packet.QOS
	w     *watched
	seen  bool // its packet reached the broker (on some connection)
	acked bool
	dropped bool // still queued when Stop(true) was called: cancelled and never carried out
	cleared bool // a Stop(true) came after the call: its future may legitimately be cancelled
	rejected bool // the broker answered its SUBSCRIBE with a failure return code
	pid      packet.ID // packet id of the SUBSCRIBE that carried the command (0 = not seen yet)
	pconn    int       // connection on which it was seen
}

type c17w struct {
	x       *explore.X
	pr      c17params
	n       *net
	svc     *client.Service
	started bool
	cmds    []*cmd
	ref     map[string]packet.QOS // reference subscription set: fold of all subscribe/unsubscribe calls made so far
	// per connection state of the scripted broker
	seenConns int
	connacked bool
	subs      map[string]packet.QOS // what the broker holds for the current connection
	prevSubs  map[string]packet.QOS // ... and what it held for the previous one
	resumedConn bool                // the current connection was accepted with session present
	pending   []packet.Generic      // requests not yet answered (withhold mode)
	withhold  bool
	failNextSuback bool
	lastWasCommand bool // the SUBSCRIBE being answered is a command packet, not the resubscription
	firstAfterConnack bool
	order     []string // command packets in the order they reached the broker (all connections)
	evname    string
	nmsg      int
	online    int
	pubAcked  map[string]bool
}

func (s *c17w) conn() *side { return s.n.cur() }

// answer a request the way a broker would (updates the broker-side subscription table)
func (s *c17w) answer(pkt packet.Generic) {
	cn := s.conn()
	switch p := pkt.(type) {
	case *packet.Subscribe:
		sa := packet.NewSuback()
		sa.ID = p.ID
		if s.failNextSuback {
			// the command this SUBSCRIBE carried (matched by packet id on this connection; the resubscription carries none)
			for _, c := range s.cmds {
				if c.kind == "sub" && c.pid == p.ID && c.pconn == s.seenConns && c.pid != 0 {
					c.rejected = true
				}
			}
		}
		for _, sub := range p.Subscriptions {
			if s.failNextSuback {
				sa.ReturnCodes = append(sa.ReturnCodes, packet.QOSFailure)
			} else {
				sa.ReturnCodes = append(sa.ReturnCodes, sub.QOS)
				s.subs[sub.Topic] = sub.QOS
			}
		}
		s.failNextSuback = false
		cn.B.Send(sa, false)
	case *packet.Unsubscribe:
		ua := packet.NewUnsuback()
		ua.ID = p.ID
		for _, t := range p.Topics {
			delete(s.subs, t)
		}
		cn.B.Send(ua, false)
	case *packet.Publish:
		if p.Message.QOS == 1 {
			s.pubAcked[string(p.Message.Payload)] = true
			cn.B.Send(env.Puback(p.ID), false)
		}
	}
}

func subsStr(m map[string]packet.QOS) string {
	var k []string
	for t, q := range m {
		k = append(k, fmt.Sprintf("%s:%d", t, q))
	}
	sort.Strings(k)
	return strings.Join(k, ",")
}

// pump: read what the service's client wrote; track new connections; answer unless withholding
func (s *c17w) pump() string {
	var log []string
	for round := 0; round < 50; round++ {
		vrt.Quiesce()
		if len(s.n.conns) > s.seenConns {
			// a new connection was dialled: the broker starts from an empty table (the service's config asks for a clean session)
			s.seenConns = len(s.n.conns)
			s.connacked = false
			s.resumedConn = false
			s.prevSubs = s.subs // kept for a broker that resumes the session (connack with session present)
			s.subs = map[string]packet.QOS{}
			s.pending = nil
		}
		cn := s.conn()
		if cn == nil {
			break
		}
		out := cn.take()
		if len(out) == 0 {
			break
		}
		for _, pkt := range out {
			log = append(log, env.Short(pkt))
			switch p := pkt.(type) {
			case *packet.Connect, *packet.Disconnect, *packet.Pingreq:
				continue
			case *packet.Subscribe:
				if s.firstAfterConnack {
					// the resubscription: exactly the reference set as of the commands dispatched so far, sorted
					s.firstAfterConnack = false
					s.lastWasCommand = false
					s.checkResubscribe(p)
				} else {
					s.lastWasCommand = true
					s.order = append(s.order, "sub:"+p.Subscriptions[0].Topic)
					for _, c := range s.cmds {
						// commands are dispatched first-in first-out: the first subscribe call for the topic not yet seen
						if c.kind == "sub" && c.topic == p.Subscriptions[0].Topic && c.pid == 0 && !c.dropped {
							c.pid, c.pconn = p.ID, s.seenConns
							break
						}
					}
				}
			case *packet.Unsubscribe:
				s.firstAfterConnack = false
				s.order = append(s.order, "unsub:"+p.Topics[0])
			case *packet.Publish:
				if !p.Dup {
					// (retransmissions of recorded publishes precede the resubscription and are not commands)
					s.firstAfterConnack = false
					s.order = append(s.order, "pub:"+string(p.Message.Payload))
				}
			}
			if s.withhold {
				s.pending = append(s.pending, pkt)
			} else if cn.open() {
				s.answer(pkt)
			}
		}
	}
	return strings.Join(log, " ")
}

// dispatched returns the reference subscription set folded over the commands whose packets reached the broker or that were
// issued before them (commands are dispatched in issue order).
func (s *c17w) dispatchedRef() map[string]packet.QOS {
	last := -1
	for i, c := range s.cmds {
		if c.seen {
			last = i
		}
	}
	ref := map[string]packet.QOS{}
	for i, c := range s.cmds {
		if i > last {
			break
		}
		if c.dropped {
			continue
		}
		switch c.kind {
		case "sub":
			ref[c.topic] = c.qos
		case "unsub":
			delete(ref, c.topic)
		}
	}
	return ref
}

// expectsResubscribe tells whether the service will send a resubscription packet after the CONNACK: it does so iff it has
// recorded subscriptions. This only serves to tell the resubscription packet from a queued Subscribe command's packet
// (both are SUBSCRIBEs); what the packet must contain is judged against the harness' own record of the calls.
func (s *c17w) expectsResubscribe() bool {
	if t, ok := env.Peek(s.svc, "subscriptions").(interface{ All() []interface{} }); ok && t != nil {
		return len(t.All()) > 0
	}
	return len(s.dispatchedRef()) > 0
}

func (s *c17w) checkResubscribe(p *packet.Subscribe) {
	got := map[string]packet.QOS{}
	var topics []string
	for _, sub := range p.Subscriptions {
		got[sub.Topic] = sub.QOS
		topics = append(topics, sub.Topic)
	}
	// acceptable: the fold over any prefix of the issued commands that includes everything already seen by the broker
	// (a command is recorded by the service when it is dispatched, which may be later than when it was issued)
	want := s.dispatchedRef()
	if subsStr(got) != subsStr(want) {
		// commands dispatched but whose packet never reached the broker (send failed) are recorded too: accept folds over longer prefixes
		ok := false
		ref := map[string]packet.QOS{}
		for _, c := range s.cmds {
			if c.dropped {
				continue
			}
			switch c.kind {
			case "sub":
				ref[c.topic] = c.qos
			case "unsub":
				delete(ref, c.topic)
			}
			if subsStr(ref) == subsStr(got) {
				ok = true
			}
		}
		if !ok {
			s.x.Failf("resubscribe-exact", "resubscribe-set-differs", "after the reconnect the service resubscribed [%s]; the subscribe/unsubscribe calls dispatched so far give [%s] (all calls so far: [%s])", subsStr(got), subsStr(want), subsStr(s.ref))
		}
	}
	if !sort.StringsAreSorted(topics) {
		s.x.Failf("resubscribe-exact", "resubscribe-unsorted", "resubscription topics are not sorted: %v", topics)
	}
	s.x.Note("resubscribed")
}

func (s *c17w) check() {
	// commands reach the broker in the order they were issued: what the broker saw must be a subsequence of what was
	// issued (a command may be lost to a failure or cancelled, never overtaken)
	last := -1
	for _, c := range s.cmds {
		c.seen = false
	}
	for _, o := range s.order {
		k := -1
		for i := last + 1; i < len(s.cmds); i++ {
			c := s.cmds[i]
			key := c.kind + ":" + c.topic
			if c.kind == "pub" {
				key = "pub:" + c.tag
			}
			if key == o && !c.dropped {
				k = i
				break
			}
		}
		if k < 0 {
			s.x.Failf("commands-fifo", "command-out-of-order", "commands reached the broker as %v but were issued as %v: not a subsequence", s.order, s.cmdNames())
			return
		}
		s.cmds[k].seen = true
		last = k
	}
	// once online with nothing withheld and everything answered, the broker's table equals the fold of ALL calls so far
	cn := s.conn()
	if cn != nil && cn.open() && s.connacked && !s.withhold && len(s.pending) == 0 && s.started {
		allSeen := true
		for _, c := range s.cmds {
			if (c.kind == "sub" || c.kind == "unsub") && !c.seen && c.w != nil && !c.w.resolved {
				allSeen = false
			}
		}
		if allSeen && !s.tableExplained() && s.staleAfterFailedUnsubscribe() {
			s.x.Failf("subscriptions-reestablished", "stale-subscription-after-failed-unsubscribe:resumed-session", "online and idle after %s on a connection the broker accepted with session present: the broker still holds [%s], the calls made so far give [%s] - an Unsubscribe whose packet could not be written is forgotten by the service (its future is cancelled), and nothing removes the subscription from a broker that kept the session", s.evname, subsStr(s.subs), subsStr(s.effectiveRef(nil)))
		} else if allSeen && !s.tableExplained() {
			s.x.Failf("subscriptions-reestablished", "table-differs", "online and idle after %s: the broker holds [%s] for this connection, the subscribe/unsubscribe calls made so far give [%s]", s.evname, subsStr(s.subs), subsStr(s.effectiveRef(nil)))
		}
	}
	// a subscription the broker refused: the caller learns about it - the future resolves (with an error), it does not stay pending
	for _, c := range s.cmds {
		if c.rejected && c.w != nil && !c.w.resolved && !s.withhold {
			s.x.Failf("futures-resolve", "rejected-subscribe-future-pending", "Subscribe(%s): the broker answered with a failure return code, the client processed it, yet the future is still unresolved after %s", c.topic, s.evname)
		}
	}
	// futures: completed only when acknowledged
	for _, c := range s.cmds {
		if c.w != nil && c.w.resolved && c.w.err == nil && c.kind == "pub" && c.qos == 1 && !s.pubAcked[c.tag] {
			s.x.Failf("future-truthful", "service-publish-completed-without-ack", "the future of publish %s completed although the broker never acknowledged it", c.tag)
		}
	}
}

// effectiveRef folds the subscribe/unsubscribe calls made so far, leaving out those dropped by Stop(true) and those in skip.
func (s *c17w) effectiveRef(skip map[*cmd]bool) map[string]packet.QOS {
	ref := map[string]packet.QOS{}
	for _, c := range s.cmds {
		if c.dropped || skip[c] {
			continue
		}
		switch c.kind {
		case "sub":
			ref[c.topic] = c.qos
		case "unsub":
			delete(ref, c.topic)
		}
	}
	return ref
}

// staleAfterFailedUnsubscribe: on a resumed broker session the only difference is subscriptions the broker still holds
// although the last call for the topic was an Unsubscribe whose dispatch failed (future cancelled, packet never arrived).
func (s *c17w) staleAfterFailedUnsubscribe() bool {
	if !s.resumedConn {
		return false
	}
	ref := s.effectiveRef(nil)
	for t, q := range ref {
		if got, ok := s.subs[t]; !ok || got != q {
			return false // something is missing: not this situation
		}
	}
	n := 0
	for t := range s.subs {
		if _, ok := ref[t]; ok {
			continue
		}
		var last *cmd
		for _, c := range s.cmds {
			if !c.dropped && (c.kind == "sub" || c.kind == "unsub") && c.topic == t {
				last = c
			}
		}
		if last == nil || last.kind != "unsub" || last.seen || last.w == nil || !last.w.resolved || last.w.err == nil {
			return false
		}
		n++
	}
	return n > 0
}

// tableExplained: the broker's table equals the fold of the calls made so far. A call whose dispatch failed at the write
// still counts: the service records a subscription (or its removal) when the dispatcher takes the command, before the
// packet is written, so the next resubscription carries it - anything else would lose a call the user made.
func (s *c17w) tableExplained() bool {
	return subsStr(s.subs) == subsStr(s.effectiveRef(nil))
}

func (s *c17w) cmdNames() []string {
	var out []string
	for _, c := range s.cmds {
		if c.kind == "pub" {
			out = append(out, "pub:"+c.tag)
		} else {
			out = append(out, c.kind+":"+c.topic)
		}
	}
	return out
}

func c17(x *explore.X, pr c17params) {
	s := &c17w{x: x, pr: pr, ref: map[string]packet.QOS{}, subs: map[string]packet.QOS{}, pubAcked: map[string]bool{}}
	s.n = &net{x: x}
	s.svc = client.NewService()
	s.svc.Session = &recSession{MemorySession: session.NewMemorySession()}
	s.svc.MinReconnectDelay = time.Second // every back-off is a manual timer: reconnects happen when the harness advances the clock
	s.svc.OnlineCallback = func(bool) { s.online++ }
	conf := cfg(s.n, false) // clean session off: what the session records is retransmitted after a reconnect
	start := func() {
		pc := call("Service.Start", func() error { s.svc.Start(conf); return nil })
		if !pc.done {
			x.Failf("calls-return", "start-blocked", "Service.Start did not return")
		}
		s.started = true
	}
	start()
	topics := []string{"a", "a/b"}
	for step := 0; step < pr.Depth; step++ {
		s.pump()
		cn := s.conn()
		var evs []string
		for _, t := range topics {
			evs = append(evs, "Subscribe("+t+")", "Unsubscribe("+t+")")
		}
		evs = append(evs, "Publish(q1)")
		if s.started {
			if cn != nil && cn.open() {
				if !s.connacked {
					evs = append(evs, "connack(0)")
					if len(s.n.conns) > 1 {
						evs = append(evs, "connack(0,session-present)")
					}
					if pr.Faults {
						evs = append(evs, "connack(5)")
					}
				} else {
					if !s.withhold {
						evs = append(evs, "withhold-answers")
					} else {
						evs = append(evs, "release-answers")
					}
					if pr.Faults {
						evs = append(evs, "reject-next-subscription")
					}
				}
				evs = append(evs, "drop")
				if pr.Faults {
					evs = append(evs, "next-client-write-fails")
				}
			}
			evs = append(evs, "advance-clock")
			if pr.Faults {
				evs = append(evs, "next-dial-refused", "next-CONNECT-unwritable")
			}
			if pr.Stops {
				evs = append(evs, "Stop(false)", "Stop(true)")
			}
		} else {
			evs = append(evs, "Start")
		}
		ev := evs[vrt.Choose(len(evs), "event")]
		s.evname = ev
		switch {
		case strings.HasPrefix(ev, "Subscribe("):
			t := ev[10 : len(ev)-1]
			c := &cmd{kind: "sub", topic: t, qos: 1}
			s.cmds = append(s.cmds, c)
			s.ref[t] = 1
			var f client.SubscribeFuture
			pc := call("Service.Subscribe", func() error { f = s.svc.Subscribe(t, 1); return nil })
			if pc.done {
				c.w = watch("sub", f)
			} else {
				x.Failf("calls-return", "subscribe-blocked", "Service.Subscribe did not return")
			}
		case strings.HasPrefix(ev, "Unsubscribe("):
			t := ev[12 : len(ev)-1]
			c := &cmd{kind: "unsub", topic: t}
			s.cmds = append(s.cmds, c)
			delete(s.ref, t)
			var f client.GenericFuture
			pc := call("Service.Unsubscribe", func() error { f = s.svc.Unsubscribe(t); return nil })
			if pc.done {
				c.w = watch("unsub", f)
			} else {
				x.Failf("calls-return", "unsubscribe-blocked", "Service.Unsubscribe did not return")
			}
		case ev == "Publish(q1)":
			s.nmsg++
			c := &cmd{kind: "pub", tag: fmt.Sprintf("m%d", s.nmsg), qos: 1}
			s.cmds = append(s.cmds, c)
			var f client.GenericFuture
			pc := call("Service.Publish", func() error { f = s.svc.Publish("p", []byte(c.tag), 1, false); return nil })
			if pc.done {
				c.w = watch("pub", f)
			} else {
				x.Failf("calls-return", "publish-blocked", "Service.Publish did not return")
			}
		case ev == "connack(0,session-present)":
			// the broker still has the session: its table is the one of the previous connection (a subscribe that was on
			// the wire when that connection broke is not in it - the resubscription has to repair that)
			s.connacked = true
			s.resumedConn = true
			s.firstAfterConnack = s.expectsResubscribe()
			for t, q := range s.prevSubs {
				s.subs[t] = q
			}
			ca := packet.NewConnack()
			ca.SessionPresent = true
			cn.B.Send(ca, false)
		case ev == "connack(0)":
			s.connacked = true
			s.firstAfterConnack = s.expectsResubscribe()
			cn.B.Send(packet.NewConnack(), false)
		case ev == "connack(5)":
			ca := packet.NewConnack()
			ca.ReturnCode = packet.NotAuthorized
			cn.B.Send(ca, false)
			x.Note("fault")
		case ev == "withhold-answers":
			s.withhold = true
		case ev == "release-answers":
			s.withhold = false
			p := s.pending
			s.pending = nil
			for _, pkt := range p {
				if cn.open() {
					s.answer(pkt)
				}
			}
		case ev == "reject-next-subscription":
			s.failNextSuback = true
			x.Note("fault")
		case ev == "drop":
			cn.B.Close()
			s.withhold = false
			x.Note("fault")
		case ev == "advance-clock":
			vrt.FireNext()
		case ev == "next-client-write-fails":
			cn.C.FailSend(1, env.FailBefore)
			x.Note("fault")
		case ev == "next-dial-refused":
			s.n.failDial = true
			x.Note("fault")
		case ev == "next-CONNECT-unwritable":
			s.n.failFirstWrite = true
			x.Note("fault")
		case strings.HasPrefix(ev, "Stop"):
			clear := ev == "Stop(true)"
			unresolved := map[*cmd]bool{}
			for _, c := range s.cmds {
				if c.w != nil && !c.w.resolved {
					unresolved[c] = true
				}
			}
			pc := call("Service.Stop", func() error { s.svc.Stop(clear); return nil })
			for i := 0; i < 6 && !pc.done; i++ {
				// Stop disconnects with a timeout while futures are pending: let the timeouts pass
				if !vrt.FireNext() {
					break
				}
				vrt.Quiesce()
			}
			if !pc.done {
				x.Failf("stop-returns", "stop-blocked", "Service.Stop(%v) has not returned although every pending timeout was allowed to expire; blocked: %v", clear, vrt.Blocked())
				return
			}
			s.started = false
			if clear {
				vrt.Quiesce()
				for _, c := range s.cmds {
					if c.w != nil && !c.w.resolved {
						x.Failf("stop-cancels-futures", "pending-after-stop-true:"+c.kind, "Stop(true) returned but the future of %s %s%s is still unresolved", c.kind, c.topic, c.tag)
					}
					if !c.seen && unresolved[c] && c.w != nil && c.w.resolved && c.w.err != nil {
						c.dropped = true // was still queued: cancelled by Stop(true), will never be carried out
					}
					c.cleared = true
				}
				s.ref = map[string]packet.QOS{}
				for _, c := range s.cmds {
					if c.dropped {
						continue
					}
					if c.kind == "sub" {
						s.ref[c.topic] = c.qos
					} else if c.kind == "unsub" {
						delete(s.ref, c.topic)
					}
				}
			}
			x.Note("stopped")
		case ev == "Start":
			start()
			x.Note("restarted")
		}
		got := s.pump()
		x.Logf("%-26s service wrote: %-40s broker table=[%s] ref=[%s]", ev, got, subsStr(s.subs), subsStr(s.ref))
		s.check()
		x.Event(fmt.Sprintf("%v|%v|%s|%s|%d", s.started, s.connacked, subsStr(s.subs), subsStr(s.ref), len(s.cmds)))
		if x.Failed() {
			return
		}
	}
	// epilogue: bring the service online with a cooperative broker; everything issued must be carried out, in order
	if !s.started {
		start()
	}
	s.withhold = false
	s.failNextSuback = false
	for round := 0; round < 24; round++ {
		s.pump()
		cn := s.conn()
		switch {
		case cn != nil && cn.open() && !s.connacked:
			s.connacked = true
			s.firstAfterConnack = s.expectsResubscribe()
			cn.B.Send(packet.NewConnack(), false)
		case cn != nil && cn.open() && len(s.pending) > 0:
			p := s.pending
			s.pending = nil
			for _, pkt := range p {
				if cn.open() {
					s.answer(pkt)
				}
			}
		case cn != nil && cn.open():
			round = 1000 // online and idle
		default:
			if !vrt.FireNext() {
				round = 1000
			}
		}
	}
	s.pump()
	s.evname = "(epilogue: cooperative broker)"
	x.Logf("%-26s broker table=[%s] ref=[%s] order=%v", s.evname, subsStr(s.subs), subsStr(s.ref), s.order)
	s.check()
	cn := s.conn()
	if cn == nil || !cn.open() || !s.connacked {
		x.Failf("reconnects", "not-online-in-epilogue", "with a cooperative broker and the clock advanced the service did not come online (connections dialled: %d); blocked: %v", len(s.n.conns), vrt.Blocked())
		return
	}
	for _, c := range s.cmds {
		if c.kind == "pub" && c.w != nil && !c.w.resolved {
			x.Failf("futures-survive", "publish-future-pending", "publish %s: online with a cooperative broker, yet its future never resolves", c.tag)
		}
		if c.kind == "pub" && c.w != nil && c.w.resolved && c.w.err != nil && !c.cleared && c.seen && s.pubAcked[c.tag] {
			x.Failf("futures-survive", "publish-future-cancelled", "publish %s reached the broker and was acknowledged (possibly after a reconnect through the resumed session), no Stop(true) intervened, yet its future was cancelled", c.tag)
		}
	}
}

func runC17(r *report.Report) {
	r.Assume("client.Service with Config.Dialer over codec pipes against a scripted broker that answers at once unless told to withhold; MinReconnectDelay is raised to 1 s so that every back-off, connect, resubscribe and disconnect timeout is a manual timer fired by 'advance-clock'",
		"the resubscription packet must carry the fold of the subscribe/unsubscribe calls dispatched so far (a call is recorded when the dispatcher takes it, which may be later than when it was issued), sorted; once online and idle the broker's table must equal the fold of all calls that were carried out",
		"the client session is persistent (clean session off) but the scripted broker starts every connection with an empty table, as a broker that lost its state would: a missing resubscription is therefore visible")
	mk := func(p c17params) string { js, _ := json.Marshal(p); return string(js) }
	type c struct {
		name  string
		p     c17params
		bound int
	}
	cfgs := []c{{"failures-depth6", c17params{Depth: 6, Faults: true}, 0}, {"stops-depth6", c17params{Depth: 6, Stops: true}, 0}, {"all-depth5", c17params{Depth: 5, Faults: true, Stops: true}, 0}, {"reordered", c17params{Depth: 4, Stops: true}, 1}}
	if r.Tier == "thorough" {
		// (sized to the 40 min budget on 16 workers; depth 8 with failures alone is 70 M histories and does not fit)
		cfgs = []c{{"stops-depth7", c17params{Depth: 7, Stops: true}, 0}, {"all-depth6", c17params{Depth: 6, Faults: true, Stops: true}, 0}, {"reordered", c17params{Depth: 5, Faults: true, Stops: true}, 1}, {"reordered2", c17params{Depth: 4, Stops: true}, 2}, {"failures-depth7", c17params{Depth: 7, Faults: true}, 0}}
	}
	for _, cf := range cfgs {
		st := explore.Explore(explore.Config{Harness: "C17.hist", Params: mk(cf.p), Bound: cf.bound, Workers: report.Workers(), Deadline: r.Deadline()})
		r.AddExploration(cf.name, "history", fmt.Sprintf("all histories of depth %d over service API calls, broker behaviours, clock advances (failures %v, Stop/Start %v), delay bound %d, each followed by a cooperative-broker epilogue", cf.p.Depth, cf.p.Faults, cf.p.Stops, cf.bound), st,
			"one execution = one history; resubscription / order / table / future clauses at every quiescence, liveness clauses in the epilogue; non-trivial = fault, resubscription, stop and restart events (counted)", "fault", "resubscribed", "stopped", "restarted")
	}
	// schedule mode: the dispatcher, the client's processor, Stop and a connection loss really overlap
	rb := 2
	if r.Tier == "thorough" {
		rb = 3
	}
	for _, third := range []string{"none", "drop", "stop", "stop-clear", "stop+drop", "stop-clear+drop", "stop+start", "stop-clear+start"} {
		js, _ := json.Marshal(c17race{Third: third})
		rb := rb
		if strings.Contains(third, "+") && r.Tier != "thorough" {
			rb = 1 // two third parties: one deviation in the quick tier
		}
		st := explore.Explore(explore.Config{Harness: "C17.race", Params: string(js), Bound: rb, Workers: report.Workers(), Deadline: r.Deadline()})
		r.AddExploration("race-"+third, "schedule", fmt.Sprintf("two service commands (each subscribe / publish QoS 1 / unsubscribe) issued while online, an autonomous broker thread that answers at once, third party: %s; every schedule within delay bound %d, then timeouts pass and (after a Stop) the service is started again", third, rb), st,
			"one execution = one schedule; calls and Stop return, futures complete (none) / resolve (Stop(true)) / publishes survive, commands reach the broker in issue order and are not lost; non-trivial = executions", "raced")
	}
}

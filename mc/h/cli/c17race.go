package cli

import (
	"encoding/json"
	"fmt"
	"strings"
	"time"

	"github.com/256dpi/gomqtt/client"
	"github.com/256dpi/gomqtt/packet"
	"github.com/256dpi/gomqtt/session"

	"verif/explore"
	"verif/h/env"
	"verif/vrt"
)

/* ---------- schedule mode: service commands racing with an immediately answering broker, connection loss and Stop ---------- */

type c17race struct {
	Third string // none | drop | stop | stop-clear | stop+drop | stop-clear+drop | stop+start | stop-clear+start
}

func init() {
	explore.Register("C17.race", func(p string) explore.Harness {
		var pr c17race
		json.Unmarshal([]byte(p), &pr)
		return func(x *explore.X) { c17Race(x, pr) }
	})
}

func c17Race(x *explore.X, pr c17race) {
	ops := []string{"sub", "pub", "unsub"}
	opA := ops[vrt.Choose(3, "op-a")]
	opB := ops[vrt.Choose(3, "op-b")]
	vrt.Quiet(true)
	n := &net{x: x}
	var order []string // command packets in the order they reached the broker (first transmissions)
	acked := map[string]bool{}
	hold := false // the broker withholds PUBACKs (epilogue)
	// the scripted broker: one autonomous thread per connection, accepts and answers everything at once
	n.onDial = func(s *side) {
		go func() {
			for {
				pkt, err := s.B.Receive()
				if err != nil {
					x.Logf("%s: broker side ends: %v", s.name, err)
					return
				}
				x.Logf("%s: broker <- %s", s.name, env.Short(pkt))
				switch p := pkt.(type) {
				case *packet.Connect:
					s.B.Send(packet.NewConnack(), false)
				case *packet.Publish:
					tag := "pub:" + string(p.Message.Payload)
					if hold {
						continue
					}
					if !acked[tag] {
						order = append(order, tag) // first arrival (a retransmission may be the first one to get through)
					}
					acked[tag] = true
					s.B.Send(env.Puback(p.ID), false)
				case *packet.Subscribe:
					order = append(order, "sub:"+p.Subscriptions[0].Topic)
					sa := packet.NewSuback()
					sa.ID = p.ID
					for range p.Subscriptions {
						sa.ReturnCodes = append(sa.ReturnCodes, 1)
					}
					s.B.Send(sa, false)
				case *packet.Unsubscribe:
					order = append(order, "unsub:"+p.Topics[0])
					ua := packet.NewUnsuback()
					ua.ID = p.ID
					s.B.Send(ua, false)
				}
			}
		}()
	}
	svc := client.NewService()
	svc.Session = &recSession{MemorySession: session.NewMemorySession()}
	svc.MinReconnectDelay = time.Second // manual timer
	onlineCount := 0
	onlineNow := false
	svc.OnlineCallback = func(bool) { onlineCount++; onlineNow = true }
	svc.OfflineCallback = func() { onlineNow = false }
	conf := cfg(n, false)
	svc.Start(conf)
	vrt.Quiesce()
	if onlineCount != 1 || len(n.conns) != 1 {
		x.Failf("setup", "race-not-online", "the service did not come online against a cooperative broker (online callbacks %d, connections %d)", onlineCount, len(n.conns))
		return
	}
	first := n.conns[0]
	vrt.Quiet(false)

	// two commands issued by one goroutine, in this order
	type issued struct {
		kind, tag string
		w         *watched
		at        int // logical time at which the API call returned
	}
	var cmds []*issued
	issue := func(kind string, i int) {
		c := &issued{kind: kind}
		switch kind {
		case "sub":
			c.tag = "sub:a"
			c.w = watch("subscribe", svc.Subscribe("a", 1))
		case "unsub":
			c.tag = "unsub:a"
			c.w = watch("unsubscribe", svc.Unsubscribe("a"))
		case "pub":
			c.tag = fmt.Sprintf("pub:m%d", i)
			c.w = watch("publish", svc.Publish("p", []byte(fmt.Sprintf("m%d", i)), 1, false))
		}
		c.at = vrt.Tick()
		cmds = append(cmds, c)
	}
	issuedAll := false
	go func() {
		issue(opA, 1)
		issue(opB, 2)
		issuedAll = true
	}()
	stopDone := true
	stopCalled := 0
	clear := strings.HasPrefix(pr.Third, "stop-clear")
	if strings.HasPrefix(pr.Third, "stop") {
		stopDone = false
		go func() { stopCalled = vrt.Tick(); svc.Stop(clear); stopDone = true }()
	}
	if strings.HasSuffix(pr.Third, "drop") {
		go func() { first.B.Close() }()
	}
	startDone := true
	if strings.HasSuffix(pr.Third, "+start") {
		// Start and Stop called from different goroutines at the same time
		startDone = false
		go func() { svc.Start(conf); startDone = true }()
	}
	vrt.Quiesce()
	vrt.Quiet(true)
	// let pending timeouts (disconnect timeout, reconnect back-off) pass
	// let pending timeouts pass (disconnect timeout, reconnect back-off) until done() holds or no timer is left. Timers left
	// behind by finished waits (future.Store.Await creates one per poll) fire first and do nothing, hence the generous cap.
	pass := func(done func() bool) {
		for i := 0; i < 3000; i++ {
			vrt.Quiesce()
			if done() || !vrt.FireNext() {
				break
			}
		}
		vrt.Quiesce()
	}
	online := func() bool { c := n.cur(); return c != nil && c.open() && onlineNow }
	pass(func() bool {
		for _, c := range cmds {
			if !c.w.resolved {
				return false
			}
		}
		return issuedAll && stopDone && startDone && (strings.HasPrefix(pr.Third, "stop") || online())
	})
	ctx := pr.Third
	if !issuedAll {
		x.Failf("calls-return", "race-command-blocked:"+ctx, "a Service.Subscribe / Publish / Unsubscribe call has not returned; blocked: %v", vrt.Blocked())
		return
	}
	if !startDone {
		x.Failf("calls-return", "race-start-blocked:"+ctx, "Service.Start (concurrent with Stop) has not returned; blocked: %v", vrt.Blocked())
		return
	}
	if !stopDone {
		x.Failf("stop-returns", "race-stop-blocked:"+ctx, "Service.Stop(%v) has not returned although every pending timeout was allowed to expire; blocked: %v", clear, vrt.Blocked())
		return
	}
	desc := func(c *issued) string { return c.tag + ":" + state(c.w) }
	if clear {
		for _, c := range cmds {
			// (a command issued while or after Stop ran belongs to the next Start)
			if !c.w.resolved && c.at < stopCalled {
				x.Failf("stop-cancels-futures", "race-pending-after-stop-true:"+c.kind, "%s had been issued before Stop(true) was called; Stop(true) returned but its future is still unresolved", c.tag)
			}
		}
	}
	if strings.HasPrefix(pr.Third, "stop") {
		// a later restart works and carries out what is still queued
		svc.Start(conf)
		pass(online)
	}
	for _, c := range cmds {
		x.Logf("issued %s at t=%d: future %s", c.tag, c.at, state(c.w))
	}
	cur := n.cur()
	if cur == nil || !cur.open() {
		x.Failf("reconnects", "race-not-online-again:"+ctx, "with a cooperative broker and the clock advanced the service is not online at the end (connections dialled: %d); blocked: %v", len(n.conns), vrt.Blocked())
		return
	}
	for _, c := range cmds {
		switch {
		case !c.w.resolved && (pr.Third == "none" || c.kind == "pub"):
			x.Failf("futures-complete", "race-future-pending:"+c.kind+":"+ctx, "%s: the service is online against a broker that answers everything, yet the future never resolves (broker saw %v, acknowledged %v)", desc(c), order, acked[c.tag])
		case c.w.resolved && c.w.err != nil && pr.Third == "none":
			x.Failf("futures-complete", "race-future-cancelled:"+c.kind+":"+ctx, "%s: nothing interfered, the broker answered, yet the future was cancelled: %v", desc(c), c.w.err)
		}
	}
	// commands reach the broker in issue order (first transmissions; a command may legitimately be missing only after Stop(true))
	pos := map[string]int{}
	for i, o := range order {
		if _, ok := pos[o]; !ok {
			pos[o] = i
		}
	}
	if len(cmds) == 2 && cmds[0].tag != cmds[1].tag {
		a, okA := pos[cmds[0].tag]
		b, okB := pos[cmds[1].tag]
		if okA && okB && a > b {
			x.Failf("command-order", "race-order:"+ctx, "commands were issued as %s, %s but reached the broker as %v", cmds[0].tag, cmds[1].tag, order)
		}
	}
	// a command whose future completed was carried out; one that failed at a dying connection reports that through its
	// cancelled future (truthful) and is not retried by the service
	for _, c := range cmds {
		if _, ok := pos[c.tag]; !ok && c.w.resolved && c.w.err == nil {
			x.Failf("commands-carried-out", "race-completed-but-never-sent:"+c.kind+":"+ctx, "the future of %s completed successfully but the broker never saw the command (it saw %v)", c.tag, order)
		}
		if _, ok := pos[c.tag]; !ok && pr.Third == "none" {
			x.Failf("commands-carried-out", "race-command-lost:"+c.kind, "%s was issued while online, nothing interfered, but the broker never saw it (it saw %v)", c.tag, order)
		}
	}
	// whatever happened above, the running service still keeps futures across a reconnect: a publish whose PUBACK is
	// withheld, a connection loss, a reconnect, the acknowledgement of the retransmission - the future completes
	hold = true
	late := &issued{kind: "pub", tag: "pub:late"}
	late.w = watch("publish", svc.Publish("p", []byte("late"), 1, false))
	vrt.Quiesce()
	if cur2 := n.cur(); cur2 != nil && cur2.open() {
		cur2.B.Close()
	}
	hold = false
	pass(func() bool { return late.w.resolved })
	if !late.w.resolved {
		x.Failf("futures-survive", "race-late-future-pending:"+ctx, "a publish issued after the raced phase (ack withheld, connection dropped, reconnected, retransmission acknowledged: %v) never resolves; broker saw %v; connections dialled %d; blocked: %v", acked["pub:late"], order, len(n.conns), vrt.Blocked())
	} else if late.w.err != nil && acked["pub:late"] {
		x.Failf("futures-survive", "race-late-future-cancelled:"+ctx, "a publish issued after the raced phase was retransmitted and acknowledged through the resumed session, yet its future was cancelled (%v): the service no longer protects futures across reconnects", late.w.err)
	}
	x.Note("raced")
	x.Outcome(strings.Join(order, ","))
}

package cli

import (
	"encoding/json"
	"fmt"
	"strings"
	"time"

	"github.com/256dpi/gomqtt/client"
	"github.com/256dpi/gomqtt/packet"
	"github.com/256dpi/gomqtt/session"

	"verif/explore"
	"verif/h/env"
	"verif/report"
	"verif/vrt"
)

type c09params struct {
	Depth  int
	QOS    []int
	Faults bool // write faults, dial failure, session faults
	Extra  bool // spurious / duplicate acknowledgements, refused connack, subscribe/unsubscribe
	Wrap   bool // the session's packet-id counter starts at 65534: the ids in flight straddle the 16-bit wrap-around
}

func init() {
	report.Register("C09", report.Check{Level: "model_checking", QuickBudget: 240 * time.Second, ThoroughBudget: 25 * time.Minute, Run: runC09})
	explore.Register("C09.hist", func(p string) explore.Harness {
		var pr c09params
		json.Unmarshal([]byte(p), &pr)
		return func(x *explore.X) { c09(x, pr) }
	})
}

// a request the scripted broker still has to answer
type request struct {
	kind   string // publish | subscribe | unsubscribe
	id     packet.ID
	qos    packet.QOS
	tag    string
	gotRel bool // PUBREL seen for a QoS 2 publish
	recd   bool // PUBREC sent
}

type c09w struct {
	x      *explore.X
	pr     c09params
	n      *net
	sess   *recSession
	c      *client.Client
	cidx   int // index of the connection the current client uses
	connF  *watched
	futs   []*watched
	reqs   []*request           // unanswered requests seen on the current connection, in order
	rec    map[string]*request  // QoS>0 publishes the session must keep: tag -> request (until finally acknowledged)
	ended  bool                 // the current client has ended (closed / disconnected / connection lost)
	nmsg   int
	last   packet.Generic // last acknowledgement the broker sent
	connacked bool
	txOrder map[packet.ID]int // order of first transmission of the QoS>0 publish currently using an id (C15, retransmission order)
	txN     int
	retrans []string // retransmissions (dup PUBLISH / PUBREL without preceding PUBREC on this connection) seen since the last reset
	fresh   []string // non-dup QoS>0 publishes seen since the last reset
	evname string
	calls  []*pendingCall
	sessFault bool
}

func (s *c09w) conn() *side {
	if s.c == nil || s.cidx >= len(s.n.conns) {
		return nil
	}
	return s.n.conns[s.cidx]
}

func (s *c09w) usable() bool { return s.c != nil && !s.ended }

// onClientWrite: at the instant the client writes a packet
func (s *c09w) onClientWrite(pkt packet.Generic) {
	p, ok := pkt.(*packet.Publish)
	if !ok || p.Message.QOS == 0 {
		return
	}
	if !p.Dup {
		if s.txOrder == nil {
			s.txOrder = map[packet.ID]int{}
		}
		s.txN++
		s.txOrder[p.ID] = s.txN
	}
	var stored packet.Generic
	vrt.Atomic(func() { stored, _ = s.sess.MemorySession.LookupPacket(session.Outgoing, p.ID) })
	sp, isPub := stored.(*packet.Publish)
	if !isPub || string(sp.Message.Payload) != string(p.Message.Payload) {
		s.x.Failf("recorded-before-sent", fmt.Sprintf("publish-q%d-sent-before-stored", p.Message.QOS), "%s is being written while the session's outgoing store holds %v under id %d", env.Short(p), stored, p.ID)
	}
}

// pump reads what the client wrote on its current connection and updates the broker's to-do list.
func (s *c09w) pump() string {
	cn := s.conn()
	if cn == nil {
		return ""
	}
	out := cn.take()
	for _, pkt := range out {
		switch p := pkt.(type) {
		case *packet.Publish:
			tag := string(p.Message.Payload)
			if p.Message.QOS == 0 {
				continue
			}
			if p.Dup {
				s.retrans = append(s.retrans, fmt.Sprintf("PUBLISH(%d,%s)", p.ID, tag))
			} else {
				s.fresh = append(s.fresh, fmt.Sprintf("PUBLISH(%d,%s)", p.ID, tag))
			}
			r := s.rec[tag]
			if r == nil {
				r = &request{kind: "publish", id: p.ID, qos: p.Message.QOS, tag: tag}
				s.rec[tag] = r
			}
			if !s.inReqs(r) {
				s.reqs = append(s.reqs, r)
			}
		case *packet.Pubrel:
			known := false
			for _, r := range s.rec {
				if r.id == p.ID && r.qos == 2 {
					known = true
					r.gotRel = true
					if !s.inReqs(r) {
						s.retrans = append(s.retrans, fmt.Sprintf("PUBREL(%d)", p.ID))
						s.reqs = append(s.reqs, r)
					}
				}
			}
			if !known {
				// a PUBREL for a handshake the broker considers finished: the client did not get (or could not
				// process) the PUBCOMP and retransmits; the broker answers again
				s.retrans = append(s.retrans, fmt.Sprintf("PUBREL(%d)", p.ID))
				r := &request{kind: "publish", id: p.ID, qos: 2, tag: fmt.Sprintf("(released %d)", p.ID), gotRel: true, recd: true}
				s.reqs = append(s.reqs, r)
			}
		case *packet.Subscribe:
			s.reqs = append(s.reqs, &request{kind: "subscribe", id: p.ID})
		case *packet.Unsubscribe:
			s.reqs = append(s.reqs, &request{kind: "unsubscribe", id: p.ID})
		}
	}
	return env.Shorts(out)
}

func (s *c09w) inReqs(r *request) bool {
	for _, q := range s.reqs {
		if q == r {
			return true
		}
	}
	return false
}

// lastAnswersOpenRequest: repeating the last acknowledgement would not be a duplicate but a genuine answer, because a request
// with the same packet id is waiting on this connection (the client has retransmitted it after a resume).
func (s *c09w) lastAnswersOpenRequest() bool {
	id, ok := packet.GetID(s.last)
	if !ok {
		return false
	}
	for _, r := range s.reqs {
		if r.id == id {
			return true
		}
	}
	return false
}

// checkRetrans: right after an accepted CONNACK on a reused session the client must retransmit everything recorded
// (publishes flagged duplicate), nothing else.
func (s *c09w) checkRetrans(want []string) {
	gs := append([]string{}, s.retrans...)
	sortStrings(gs)
	sortStrings(want)
	if len(s.fresh) > 0 {
		s.x.Failf("retransmit-on-connect", "retransmission-not-flagged-dup", "after CONNACK on the reused session the client sent %v without the duplicate flag (recorded: %v)", s.fresh, want)
	} else if strings.Join(gs, " ") != strings.Join(want, " ") {
		s.x.Failf("retransmit-on-connect", "retransmission-set-differs", "after CONNACK on the reused session the client retransmitted [%s], the session records [%s]", strings.Join(gs, " "), strings.Join(want, " "))
	} else if len(want) > 0 {
		s.x.Note("retransmission")
	}
	// ... in the order of their original transmission (C15); a PUBREL stands for the publish it replaced
	last, lastDesc := 0, ""
	for _, r := range s.retrans {
		var id int
		if _, err := fmt.Sscanf(r, "PUBLISH(%d,", &id); err != nil {
			if _, err := fmt.Sscanf(r, "PUBREL(%d)", &id); err != nil {
				continue
			}
		}
		o, ok := s.txOrder[packet.ID(id)]
		if !ok {
			continue
		}
		if o < last {
			s.x.Failf("retransmission-order", "client-resend-out-of-order", "after the resume the client retransmitted %v; %s was first sent before %s", s.retrans, r, lastDesc)
			break
		}
		last, lastDesc = o, r
	}
}

// recorded lists what the session's outgoing store holds, in retransmission notation.
func (s *c09w) recorded() []string {
	var out []string
	vrt.Atomic(func() {
		all, _ := s.sess.MemorySession.AllPackets(session.Outgoing)
		for _, p := range all {
			switch q := p.(type) {
			case *packet.Publish:
				out = append(out, fmt.Sprintf("PUBLISH(%d,%s)", q.ID, string(q.Message.Payload)))
			case *packet.Pubrel:
				out = append(out, fmt.Sprintf("PUBREL(%d)", q.ID))
			}
		}
	})
	return out
}

func sortStrings(s []string) {
	for i := range s {
		for j := i + 1; j < len(s); j++ {
			if s[j] < s[i] {
				s[i], s[j] = s[j], s[i]
			}
		}
	}
}

func (s *c09w) settle() string {
	vrt.Quiesce()
	got := s.pump()
	// did the current client end?
	if s.c != nil && !s.ended {
		cn := s.conn()
		if cn != nil && cn.C.LocalClosed {
			s.ended = true
		}
	}
	return got
}

func (s *c09w) accessors() {
	try := func(what string, f func()) {
		defer func() {
			if r := recover(); r != nil {
				s.x.Failf("accessor-no-panic", "accessor-panic:"+what, "%s panicked after %s: %v", what, s.evname, r)
			}
		}()
		f()
	}
	for _, w := range s.futs {
		switch f := w.f.(type) {
		case client.ConnectFuture:
			try("ConnectFuture.SessionPresent ("+state(w)+")", func() { f.SessionPresent() })
			try("ConnectFuture.ReturnCode ("+state(w)+")", func() { f.ReturnCode() })
		case client.SubscribeFuture:
			try("SubscribeFuture.ReturnCodes ("+state(w)+")", func() { f.ReturnCodes() })
		}
	}
}

func state(w *watched) string {
	switch {
	case !w.resolved:
		return "pending"
	case w.err == nil:
		return "completed"
	}
	return "cancelled"
}

func (s *c09w) check() {
	// futures are truthful
	for _, w := range s.futs {
		if w.resolved && w.err == nil && !w.acked && !(w.what == "publish" && w.qos == 0) {
			s.x.Failf("future-truthful", "completed-without-ack:"+w.what, "the %s future (packet id %d) completed successfully although the broker's acknowledgement for it was never sent (after %s)", w.what, w.id, s.evname)
		}
	}
	// an acknowledgement that was read on a live connection completes its future
	if cn := s.conn(); cn != nil && cn.open() && !s.ended && !s.sessFault {
		for _, w := range s.futs {
			if w.acked && !(w.resolved && w.err == nil) {
				s.x.Failf("ack-completes-future", "acked-but-"+state(w)+":"+w.what, "the broker's acknowledgement for the %s with packet id %d was read on a live connection, yet its future is %s (after %s)", w.what, w.id, state(w), s.evname)
			}
		}
	}
	// recorded until acknowledged
	have := s.sess.dump(session.Outgoing)
	for _, r := range s.rec {
		want := fmt.Sprintf("PUBLISH(%d,t,%q,q%d", r.id, r.tag, r.qos)
		if r.qos == 2 && r.recd {
			if s.sessFault && strings.Contains(have, want) {
				continue // the PUBREC may have hit an injected session failure: the publish staying recorded is fine
			}
			want = fmt.Sprintf("PUBREL(%d)", r.id)
		}
		if !strings.Contains(have, want) {
			s.x.Failf("recorded-until-acked", "unacked-not-recorded:"+strings.Split(want, "(")[0], "message %s has not been acknowledged by the broker but the session holds [%s] after %s (expected %s...)", r.tag, have, s.evname, want)
		}
	}
	// everything resolves when the connection has ended
	if s.ended {
		for _, w := range s.futs {
			if !w.resolved {
				s.x.Failf("futures-resolved", "pending-after-end:"+w.what, "the client's connection has ended (after %s) but the %s future (packet id %d) is still unresolved: a caller of Wait blocks forever", s.evname, w.what, w.id)
			}
		}
	}
	for _, pc := range s.calls {
		if !pc.done {
			s.x.Failf("calls-return", "blocked:"+pc.name, "%s has not returned at quiescence (after %s); blocked threads: %v", pc.name, s.evname, vrt.Blocked())
		}
	}
	s.calls = nil
	s.accessors()
}

func c09(x *explore.X, pr c09params) {
	s := &c09w{x: x, pr: pr, rec: map[string]*request{}}
	s.n = &net{x: x}
	s.n.onSend = s.onClientWrite
	s.sess = &recSession{MemorySession: session.NewMemorySession()}
	if pr.Wrap {
		s.sess.MemorySession.Counter = session.NewIDCounterWithNext(65534)
	}
	for step := 0; step < pr.Depth; step++ {
		var evs []string
		if !s.usable() {
			evs = append(evs, "connect")
			if pr.Faults {
				evs = append(evs, "connect(dial-fails)", "connect(CONNECT-unwritable)")
			}
			if s.c != nil {
				evs = append(evs, "close")
			}
		} else {
			cn := s.conn()
			if s.connacked {
				for _, q := range pr.QOS {
					evs = append(evs, fmt.Sprintf("publish(q%d)", q))
				}
				if pr.Extra {
					evs = append(evs, "subscribe", "unsubscribe")
				}
				evs = append(evs, "disconnect")
				if pr.Extra {
					evs = append(evs, "disconnect(timeout)")
				}
			} else if cn.open() {
				evs = append(evs, "connack(0)")
				if pr.Extra {
					evs = append(evs, "connack(5)", "connack(0,sp)", "publish-before-connack")
				}
			}
			evs = append(evs, "close")
			if cn.open() {
				if len(s.reqs) > 0 {
					evs = append(evs, "ack-next")
				}
				if pr.Extra {
					evs = append(evs, "ack-unknown-id")
					if s.last != nil && !s.lastAnswersOpenRequest() {
						evs = append(evs, "ack-duplicate")
					}
				}
				evs = append(evs, "drop")
				if pr.Faults {
					evs = append(evs, "fail-next-client-write-before", "fail-next-client-write-after", "session-fault")
				}
			}
		}
		ev := evs[vrt.Choose(len(evs), "event")]
		s.evname = ev
		cn := s.conn()
		switch {
		case strings.HasPrefix(ev, "connect"):
			s.c = client.New()
			s.c.Session = s.sess
			s.ended = false
			s.connacked = false
			s.reqs = nil
			s.futs = nil
			s.cidx = len(s.n.conns)
			s.connF = nil
			if ev == "connect(dial-fails)" {
				s.n.failDial = true
			}
			if ev == "connect(CONNECT-unwritable)" {
				s.n.failFirstWrite = true
			}
			cl := s.c
			var cf client.ConnectFuture
			pc := call("Client.Connect", func() error {
				var err error
				cf, err = cl.Connect(cfg(s.n, false))
				return err
			})
			s.calls = append(s.calls, pc)
			if pc.done && pc.err != nil {
				// the client never got going; it can be closed, nothing else
				if ev == "connect(dial-fails)" {
					s.c = nil
				}
				s.ended = true
			} else if pc.done {
				s.connF = watch("connect", cf)
				s.futs = append(s.futs, s.connF)
			}
		case ev == "connack(0)" || ev == "connack(0,sp)":
			ca := packet.NewConnack()
			ca.SessionPresent = ev == "connack(0,sp)"
			want := s.recorded()
			s.retrans, s.fresh = nil, nil
			first := !s.connacked
			cn.B.Send(ca, false)
			s.connacked = true
			if s.connF != nil {
				s.connF.acked = true
			}
			if first {
				vrt.Quiesce()
				s.pump()
				if cn.open() {
					s.checkRetrans(want)
				}
			}
		case ev == "connack(5)":
			ca := packet.NewConnack()
			ca.ReturnCode = packet.NotAuthorized
			cn.B.Send(ca, false)
		case ev == "publish-before-connack":
			cl := s.c
			s.calls = append(s.calls, call("Client.Publish", func() error { _, err := cl.Publish("t", []byte("early"), 1, false); _ = err; return nil }))
		case strings.HasPrefix(ev, "publish"):
			var q int
			fmt.Sscanf(ev, "publish(q%d)", &q)
			s.nmsg++
			tag := fmt.Sprintf("m%d", s.nmsg)
			cl := s.c
			var f client.GenericFuture
			pc := call("Client.Publish", func() error {
				var err error
				f, err = cl.Publish("t", []byte(tag), packet.QOS(q), false)
				return err
			})
			s.calls = append(s.calls, pc)
			if pc.done && pc.err == nil {
				w := watch("publish", f)
				w.qos = packet.QOS(q)
				w.what = "publish"
				s.futs = append(s.futs, w)
				// learn the packet id from what was written
				vrt.Quiesce()
				s.pump()
				if r := s.rec[tag]; r != nil {
					w.id = r.id
				}
			}
		case ev == "subscribe":
			cl := s.c
			var f client.SubscribeFuture
			pc := call("Client.Subscribe", func() error { var err error; f, err = cl.Subscribe("s", 1); return err })
			s.calls = append(s.calls, pc)
			if pc.done && pc.err == nil {
				w := watch("subscribe", f)
				s.futs = append(s.futs, w)
				vrt.Quiesce()
				s.pump()
				if len(s.reqs) > 0 {
					w.id = s.reqs[len(s.reqs)-1].id
				}
			}
		case ev == "unsubscribe":
			cl := s.c
			var f client.GenericFuture
			pc := call("Client.Unsubscribe", func() error { var err error; f, err = cl.Unsubscribe("s"); return err })
			s.calls = append(s.calls, pc)
			if pc.done && pc.err == nil {
				w := watch("unsubscribe", f)
				s.futs = append(s.futs, w)
				vrt.Quiesce()
				s.pump()
				if len(s.reqs) > 0 {
					w.id = s.reqs[len(s.reqs)-1].id
				}
			}
		case ev == "disconnect":
			cl := s.c
			s.calls = append(s.calls, call("Client.Disconnect", func() error { cl.Disconnect(); return nil }))
			s.ended = true
		case ev == "disconnect(timeout)":
			cl := s.c
			pc := call("Client.Disconnect(timeout)", func() error { cl.Disconnect(time.Second); return nil })
			if !pc.done {
				// it waits for unresolved futures: let the timeout pass
				for i := 0; i < 4 && !pc.done; i++ {
					vrt.FireNext()
					vrt.Quiesce()
				}
			}
			s.calls = append(s.calls, pc)
			s.ended = true
		case ev == "close":
			cl := s.c
			s.calls = append(s.calls, call("Client.Close", func() error { cl.Close(); return nil }))
			s.ended = true
		case ev == "ack-next":
			r := s.reqs[0]
			var ack packet.Generic
			final := true
			switch {
			case r.kind == "subscribe":
				sa := packet.NewSuback()
				sa.ID = r.id
				sa.ReturnCodes = []packet.QOS{1}
				ack = sa
			case r.kind == "unsubscribe":
				ua := packet.NewUnsuback()
				ua.ID = r.id
				ack = ua
			case r.qos == 1:
				ack = env.Puback(r.id)
			case r.qos == 2 && !r.gotRel:
				ack = env.Pubrec(r.id)
				r.recd = true
				final = false
			default:
				ack = env.Pubcomp(r.id)
			}
			if final {
				for _, w := range s.futs {
					if w.id == r.id && w.what == r.kind {
						w.acked = true
					}
				}
			}
			cn.B.Send(ack, false)
			s.last = ack
			if final {
				s.reqs = s.reqs[1:]
				if r.kind == "publish" {
					delete(s.rec, r.tag)
				}
			} else {
				// the PUBREL must follow; the request stays at the head of the list
				vrt.Quiesce()
				s.pump()
			}
			x.Note("ack")
		case ev == "ack-unknown-id":
			cn.B.Send(env.Puback(4242), false)
			cn.B.Send(env.Pubcomp(4243), false)
		case ev == "ack-duplicate":
			cn.B.Send(s.last, false)
		case ev == "drop":
			cn.B.Close()
			x.Note("fault")
		case ev == "fail-next-client-write-before":
			cn.C.FailSend(1, env.FailBefore)
			x.Note("fault")
		case ev == "fail-next-client-write-after":
			cn.C.FailSend(1, env.FailAfter)
			x.Note("fault")
		case ev == "session-fault":
			s.sess.failAt = 1
			s.sessFault = true
			x.Note("fault")
		}
		got := s.settle()
		x.Logf("%-32s client wrote: %-44s session.out=[%s]", ev, got, s.sess.dump(session.Outgoing))
		s.check()
		x.Event(fmt.Sprintf("%v|%v|%d|%s", s.usable(), s.connacked, len(s.reqs), s.sess.dump(session.Outgoing)))
		if x.Failed() {
			return
		}
	}
}

/* ---------- schedule mode: API calls racing with an acknowledging broker, Close and connection loss ---------- */

type c09race struct {
	Closer string // none | close | drop | disconnect
	Pubs   int
}

func init() {
	explore.Register("C09.race", func(p string) explore.Harness {
		var pr c09race
		json.Unmarshal([]byte(p), &pr)
		return func(x *explore.X) { c09Race(x, pr) }
	})
}

func c09Race(x *explore.X, pr c09race) {
	qa := packet.QOS(1 + vrt.Choose(2, "qos-a"))
	opB := vrt.Choose(5, "op-b") // publish q0/q1/q2, subscribe, unsubscribe
	qb := packet.QOS(opB % 3)
	vrt.Quiet(true)
	n := &net{x: x}
	sess := &recSession{MemorySession: session.NewMemorySession()}
	cl := client.New()
	cl.Session = sess
	var cf client.ConnectFuture
	pc := call("Client.Connect", func() error { var err error; cf, err = cl.Connect(cfg(n, false)); return err })
	if !pc.done || pc.err != nil {
		x.Failf("setup", "connect-failed", "connect did not work: %v", pc.err)
		return
	}
	cn := n.conns[0]
	cn.take()
	cn.B.Send(packet.NewConnack(), false)
	vrt.Quiesce()
	_ = cf
	acked := map[packet.ID]bool{}
	// the scripted broker acknowledges everything at once
	go func() {
		for {
			pkt, err := cn.B.Receive()
			if err != nil {
				return
			}
			switch p := pkt.(type) {
			case *packet.Publish:
				switch p.Message.QOS {
				case 1:
					acked[p.ID] = true
					cn.B.Send(env.Puback(p.ID), false)
				case 2:
					cn.B.Send(env.Pubrec(p.ID), false)
				}
			case *packet.Pubrel:
				acked[p.ID] = true
				cn.B.Send(env.Pubcomp(p.ID), false)
			case *packet.Subscribe:
				acked[p.ID] = true
				sa := packet.NewSuback()
				sa.ID = p.ID
				sa.ReturnCodes = []packet.QOS{1}
				cn.B.Send(sa, false)
			case *packet.Unsubscribe:
				acked[p.ID] = true
				ua := packet.NewUnsuback()
				ua.ID = p.ID
				cn.B.Send(ua, false)
			}
		}
	}()
	vrt.Quiet(false)
	var ws []*watched
	calls := 0
	returned := 0
	pub := func(name string, q packet.QOS) {
		calls++
		go func() {
			f, err := cl.Publish("t", []byte(name), q, false)
			returned++
			if err == nil {
				w := watch("publish", f)
				w.qos = q
				w.what = name
				ws = append(ws, w)
			}
		}()
	}
	pub("a", qa)
	if pr.Pubs > 1 {
		switch opB {
		case 3:
			calls++
			go func() {
				f, err := cl.Subscribe("s", 1)
				returned++
				if err == nil {
					w := watch("subscribe", f)
					w.what = "subscribe"
					w.qos = 1
					ws = append(ws, w)
				}
			}()
		case 4:
			calls++
			go func() {
				f, err := cl.Unsubscribe("s")
				returned++
				if err == nil {
					w := watch("unsubscribe", f)
					w.what = "unsubscribe"
					w.qos = 1
					ws = append(ws, w)
				}
			}()
		default:
			pub("b", qb)
		}
	}
	closerDone := pr.Closer == "none"
	switch pr.Closer {
	case "close":
		go func() { cl.Close(); closerDone = true }()
	case "disconnect":
		go func() { cl.Disconnect(); closerDone = true }()
	case "drop":
		go func() { cn.B.Close(); closerDone = true }()
	}
	vrt.Quiesce()
	vrt.Quiet(true)
	if returned != calls || !closerDone {
		x.Failf("calls-return", "race-call-blocked:"+pr.Closer, "%d of %d Publish calls returned, closer done=%v at quiescence; blocked: %v", returned, calls, closerDone, vrt.Blocked())
		return
	}
	for _, w := range ws {
		if !w.resolved {
			if pr.Closer == "none" {
				x.Failf("ack-completes-future", "race-future-pending:"+pr.Closer, "publish %q (QoS %d) was acknowledged by the broker on a live connection, yet its future never resolves", w.what, w.qos)
			} else {
				x.Failf("futures-resolved", "race-future-pending:"+pr.Closer, "the client was closed / lost its connection, yet the future of publish %q (QoS %d) never resolves", w.what, w.qos)
			}
		} else if w.err != nil && pr.Closer == "none" {
			x.Failf("ack-completes-future", "race-future-cancelled:none", "publish %q (QoS %d) was acknowledged on a live connection but its future was cancelled", w.what, w.qos)
		}
	}
	if pr.Closer != "none" {
		// wait until the client is completely down; everything must be resolved, nothing may be running
		done := false
		go func() { cl.Close(); done = true }()
		vrt.Quiesce()
		if !done {
			x.Failf("calls-return", "race-close-blocked:"+pr.Closer, "Client.Close does not return after %s; blocked: %v", pr.Closer, vrt.Blocked())
		}
	}
	x.Note("raced")
	var out []string
	for _, w := range ws {
		out = append(out, w.what+":"+state(w))
	}
	sortStrings(out)
	x.Outcome(strings.Join(out, ","))
}

func runC09(r *report.Report) {
	r.Assume("the client is driven through Config.Dialer over codec pipes against a scripted broker; every API call runs on its own thread and must have returned at quiescence",
		"client.Client is single-use: a 'reconnect' is a new Client sharing the same recording Session (clean session off)",
		"a waiter thread sits in Wait(0) on every future: 'resolved' and 'blocks forever' are read off those threads at quiescence",
		"session faults make the next Session call fail; a message whose Save failed is not expected to be recorded")
	mk := func(p c09params) string { js, _ := json.Marshal(p); return string(js) }
	type c struct {
		name  string
		p     c09params
		bound int
	}
	cfgs := []c{{"core-depth11", c09params{Depth: 11, QOS: []int{1, 2}}, 0}, {"faults-depth8", c09params{Depth: 8, QOS: []int{0, 1, 2}, Faults: true}, 0},
		{"extra-depth7", c09params{Depth: 7, QOS: []int{1}, Extra: true, Faults: true}, 0}, {"core-reordered", c09params{Depth: 7, QOS: []int{1, 2}, Faults: true}, 1}, {"core-reordered2", c09params{Depth: 5, QOS: []int{1, 2}}, 2},
		{"core-ids-wrap-depth9", c09params{Depth: 9, QOS: []int{1, 2}, Wrap: true}, 0}}
	if r.Tier == "thorough" {
		cfgs = []c{{"core-depth13", c09params{Depth: 13, QOS: []int{1, 2}}, 0}, {"faults-depth9", c09params{Depth: 9, QOS: []int{0, 1, 2}, Faults: true}, 0},
			{"extra-depth8", c09params{Depth: 8, QOS: []int{1, 2}, Extra: true, Faults: true}, 0}, {"core-reordered", c09params{Depth: 8, QOS: []int{1, 2}, Faults: true}, 1}, {"core-reordered2", c09params{Depth: 6, QOS: []int{1, 2}}, 2},
			{"core-ids-wrap-depth11", c09params{Depth: 11, QOS: []int{1, 2}, Wrap: true}, 0}}
	}
	rb := 3
	if r.Tier == "thorough" {
		rb = 4
	}
	races := func() {
	for _, closer := range []string{"none", "drop", "close", "disconnect"} {
		js, _ := json.Marshal(c09race{Closer: closer, Pubs: 2})
		st := explore.Explore(explore.Config{Harness: "C09.race", Params: string(js), Bound: rb, Workers: report.Workers(), Deadline: r.Deadline()})
		r.AddExploration("race-"+closer, "schedule", fmt.Sprintf("a Publish (QoS 1/2) racing with a second call (Publish QoS 0/1/2, Subscribe or Unsubscribe) against an immediately acknowledging broker thread, third party: %s; every schedule within delay bound %d", closer, rb), st,
			"one execution = one schedule; all calls return, futures resolve (and complete when nothing interferes); non-trivial = executions", "raced")
	}
	}
	if r.Tier != "thorough" {
		races()
	}
	for _, cf := range cfgs {
		st := explore.Explore(explore.Config{Harness: "C09.hist", Params: mk(cf.p), Bound: cf.bound, Workers: report.Workers(), Deadline: r.Deadline()})
		r.AddExploration(cf.name, "history", fmt.Sprintf("all histories of depth %d over API calls and broker behaviours (qos %v, faults %v, spurious/duplicate acks and sub/unsub %v, id counter starting at 65534 %v), delay bound %d", cf.p.Depth, cf.p.QOS, cf.p.Faults, cf.p.Extra, cf.p.Wrap, cf.bound), st,
			"one execution = one history; instant clause at every PUBLISH the client writes, store / future / return clauses at every quiescence; non-trivial = fault, acknowledgement and retransmission events (counted)", "fault", "ack", "retransmission")
	}
	// the closed system: this client against the real broker (package h/e2e)
	de := 5
	if r.Tier == "thorough" {
		de = 7
	}
	ste := explore.Explore(explore.Config{Harness: "E2E.hist", Params: fmt.Sprintf(`{"Depth":%d,"QOS":[1,2],"Faults":true}`, de), Bound: 0, Workers: report.Workers(), Deadline: r.Deadline(),
		OnlyClauses: []string{"futures-resolve", "calls-return", "reconnects", "setup"}})
	r.AddExploration("end-to-end", "history", fmt.Sprintf("real client library (publisher, subscriber) <-> real broker over codec pipes: all histories of depth %d over {publish QoS 1/2, drop / write failure / broker write failure on either connection, reconnect with the same session}, then both sides reconnect", de), ste,
		"Publish and Close return, a client can reconnect with its session, every publish future resolves once both sides are connected and idle again; non-trivial = histories with a publish / with a fault", "published", "fault")

	if r.Tier == "thorough" {
		races() // the largest parts last: the internal budget, if reached, cuts only them
	}
}

// Package c04: topic matching follows MQTT 4.7 in both directions (Match over
// stored filters, Search over stored names) and the two directions agree.
package c04

import (
	"fmt"
	"sort"
	"strings"
	"time"

	"github.com/256dpi/gomqtt/topic"

	"verif/explore"
	"verif/par"
	"verif/ref"
	"verif/report"
)

func init() {
	report.Register("C04", report.Check{Level: "exploration", QuickBudget: 240 * time.Second, ThoroughBudget: 25 * time.Minute, Run: run})
	explore.Register("C04.case", func(p string) explore.Harness {
		return func(x *explore.X) {
			parts := strings.Split(p, "\x1f")
			x.Logf("case: %q", parts)
			var fs []explore.ClauseFail
			switch parts[0] {
			case "match":
				fs = checkMatch(parts[1:len(parts)-1], parts[len(parts)-1], parts[1] == "=")
			case "search":
				fs = checkSearch(parts[1:len(parts)-1], parts[len(parts)-1], parts[1] == "=")
			case "match-rm", "search-rm":
				st, empty := parts[1:len(parts)-1], false
				if st[0] == "=" {
					st, empty = st[1:], true
				}
				fs = checkAfterRemove(strings.TrimSuffix(parts[0], "-rm"), st, parts[len(parts)-1], empty)
			}
			for _, f := range fs {
				x.Failf(f.Clause, f.Sig, "%s", f.Msg)
			}
		}
	})
}

func levelStrings(alpha []string, depth int) []string {
	var out []string
	var rec func(cur []string)
	rec = func(cur []string) {
		if len(cur) > 0 {
			out = append(out, strings.Join(cur, "/"))
		}
		if len(cur) == depth {
			return
		}
		for _, a := range alpha {
			rec(append(append([]string{}, cur...), a))
		}
	}
	rec(nil)
	return out
}

// Names: levels over {a,b,""}, depth 1..d. Filters: levels over {a,b,"",+},
// depth 1..d, optionally ending in '#', and '#' alone.
func names(d int) []string { return levelStrings([]string{"a", "b", ""}, d) }
func filters(d int) []string {
	out := levelStrings([]string{"a", "b", "", "+"}, d)
	out = append(out, "#")
	for _, p := range levelStrings([]string{"a", "b", "", "+"}, d-1) {
		out = append(out, p+"/#")
	}
	return out
}

func setOf(vs []interface{}) (map[int]int, string) {
	m := map[int]int{}
	var ks []int
	for _, v := range vs {
		i, _ := v.(int)
		if m[i] == 0 {
			ks = append(ks, i)
		}
		m[i]++
	}
	sort.Ints(ks)
	return m, fmt.Sprint(ks)
}

func compare(kind, q string, stored []string, got []interface{}, first interface{}, want map[int]bool) []explore.ClauseFail {
	var fs []explore.ClauseFail
	gm, gs := setOf(got)
	var wk []int
	for k := range want {
		wk = append(wk, k)
	}
	sort.Ints(wk)
	ws := fmt.Sprint(wk)
	sig := fmt.Sprintf("%s:%s|%s", kind, strings.Join(stored, ","), q)
	if gs != ws {
		fs = append(fs, explore.ClauseFail{Clause: kind + "-exact", Sig: sig, Msg: fmt.Sprintf("tree holding %q (values 1..n in that order): %s(%q) returned values %s, MQTT 4.7 requires %s", stored, kind, q, gs, ws)})
	}
	for v, n := range gm {
		if n > 1 {
			fs = append(fs, explore.ClauseFail{Clause: kind + "-once", Sig: sig, Msg: fmt.Sprintf("tree holding %q: %s(%q) returned value %d %d times", stored, kind, q, v, n)})
		}
	}
	if (first == nil) != (len(want) == 0) {
		fs = append(fs, explore.ClauseFail{Clause: kind + "-first", Sig: sig, Msg: fmt.Sprintf("tree holding %q: %sFirst(%q) = %v but the matching set is %s", stored, kind, q, first, ws)})
	} else if first != nil {
		if i, _ := first.(int); !want[i] {
			fs = append(fs, explore.ClauseFail{Clause: kind + "-first", Sig: sig, Msg: fmt.Sprintf("tree holding %q: %sFirst(%q) = %v is not in the matching set %s", stored, kind, q, first, ws)})
		}
	}
	return fs
}

// checkMatch: stored filters (value i+1 under filter i, or all value 1 if same), one name looked up.
func checkMatch(fl []string, name string, same bool) []explore.ClauseFail {
	if len(fl) > 0 && fl[0] == "=" {
		fl = fl[1:]
	}
	t := topic.NewStandardTree()
	want := map[int]bool{}
	for i, f := range fl {
		v := i + 1
		if same {
			v = 1
		}
		t.Add(f, v)
		if ref.Matches(f, name) {
			want[v] = true
		}
	}
	return compare("Match", name, fl, t.Match(name), t.MatchFirst(name), want)
}

// checkSearch: stored names, one filter searched.
func checkSearch(nl []string, filter string, same bool) []explore.ClauseFail {
	if len(nl) > 0 && nl[0] == "=" {
		nl = nl[1:]
	}
	t := topic.NewStandardTree()
	want := map[int]bool{}
	for i, n := range nl {
		v := i + 1
		if same {
			v = 1
		}
		t.Add(n, v)
		if ref.Matches(filter, n) {
			want[v] = true
		}
	}
	return compare("Search", filter, nl, t.Search(filter), t.SearchFirst(filter), want)
}

// checkAfterRemove: the set {first entry} reached another way - both entries added, the second one removed again (by
// Remove or by Empty): the answers must be those of the tree holding the first entry only (no trace of the other).
func checkAfterRemove(kind string, st []string, q string, empty bool) []explore.ClauseFail {
	t := topic.NewStandardTree()
	t.Add(st[0], 1)
	if st[1] != st[0] {
		t.Add(st[1], 2)
		if empty {
			t.Empty(st[1])
		} else {
			t.Remove(st[1], 2)
		}
	}
	want := map[int]bool{}
	desc := []string{st[0], "(+ " + st[1] + ", removed again)"}
	if kind == "match" {
		if ref.Matches(st[0], q) {
			want[1] = true
		}
		return compare("Match", q, desc, t.Match(q), t.MatchFirst(q), want)
	}
	if ref.Matches(q, st[0]) {
		want[1] = true
	}
	return compare("Search", q, desc, t.Search(q), t.SearchFirst(q), want)
}

type job struct {
	kind   string
	stored []string
	q      string
	same   bool
}

type sweep struct {
	viol    []explore.Violation
	sigs    map[string]bool
	nviol   int
	evals   int64
	matched int64
}

type result struct {
	fs      []explore.ClauseFail
	matched bool
}

func work(j job) (res result) {
	defer func() {
		if r := recover(); r != nil {
			explore.EngineFault(r)
			res.fs = append(res.fs, explore.ClauseFail{Clause: "no-panic", Sig: fmt.Sprintf("panic:%s:%v", j.kind, r), Msg: fmt.Sprintf("%s on a tree holding %q queried with %q panicked: %v", j.kind, j.stored, j.q, r)})
		}
	}()
	switch j.kind {
	case "match":
		res.fs = checkMatch(j.stored, j.q, j.same)
	case "search":
		res.fs = checkSearch(j.stored, j.q, j.same)
	case "match-rm":
		res.fs = checkAfterRemove("match", j.stored, j.q, j.same)
		res.matched = ref.Matches(j.stored[0], j.q)
		return res
	case "search-rm":
		res.fs = checkAfterRemove("search", j.stored, j.q, j.same)
		res.matched = ref.Matches(j.q, j.stored[0])
		return res
	}
	for _, st := range j.stored {
		if (j.kind == "match" && ref.Matches(st, j.q)) || (j.kind == "search" && ref.Matches(j.q, st)) {
			res.matched = true
			break
		}
	}
	return res
}

func (s *sweep) collect(j job, res result) {
	s.evals++
	if res.matched {
		s.matched++
	}
	for _, f := range res.fs {
		s.nviol++
		k := f.Clause + "\x00" + f.Sig
		if !s.sigs[k] && len(s.viol) < 400 {
			s.sigs[k] = true
			p := []string{j.kind}
			if j.same {
				p = append(p, "=")
			}
			p = append(p, j.stored...)
			p = append(p, j.q)
			s.viol = append(s.viol, explore.Violation{Harness: "C04.case", Params: strings.Join(p, "\x1f"), Clause: f.Clause, Sig: f.Sig, Msg: f.Msg})
		}
	}
}

func run(r *report.Report) {
	r.Assume("the quantifier's random long inputs are replaced by complete sweeps of the stated finite universes plus a fixed structured family (depth-12 chains, multi-byte levels)",
		"topic names are free of wildcards and U+0000; filters are syntactically valid ('#' only as last level, wildcards occupy whole levels)",
		"sequential sweep: map iteration inside the tree runs in canonical (sorted) order; result sets are compared order-insensitively")
	thorough := r.Tier == "thorough"
	N4, F4 := names(4), filters(4)
	N3, F3 := names(3), filters(3)
	N2, F2 := names(2), filters(2)
	part := func(name, bound, rule string, gen func(emit func(job))) {
		t0 := r.Seconds()
		s := &sweep{sigs: map[string]bool{}}
		complete := par.Run(gen, work, s.collect, r.Deadline())
		// a violating signature is reported once per (clause, witness); cap what is kept
		v := s.viol
		r.AddSweep(report.Part{Name: name, Mode: "sweep", Bound: bound, Evaluations: s.evals, Nontrivial: s.matched, Rule: rule + "; non-trivial = cases in which at least one stored entry matches the query (counted)",
			Exhaustive: complete, Wall: r.Seconds() - t0, Violations: s.nviol}, v)
	}
	// (1) every (filter, name) pair in both directions on a one-entry tree
	part("pairs", fmt.Sprintf("%d filters x %d names, depth <= 4, both directions", len(F4), len(N4)),
		"each pair once as Add(filter);Match(name) and once as Add(name);Search(filter), result set / First variant against the reference matcher (agreement of the directions follows from both equalling the same reference)",
		func(emit func(job)) {
			for _, f := range F4 {
				for _, n := range N4 {
					emit(job{kind: "match", stored: []string{f}, q: n})
					emit(job{kind: "search", stored: []string{n}, q: f})
				}
			}
		})
	r.Sample(map[string]string{"filter": "a/+", "name": "a", "expected": "no match in either direction"})
	r.Sample(map[string]string{"filter": "a/#", "name": "a", "expected": "match in both directions (parent level)"})
	// (2) two stored entries, distinct and equal values
	FA, NA := F3, N3
	NQ, FQ := N4, F4
	if !thorough {
		NQ, FQ = N3, F3
	}
	part("two-filters", fmt.Sprintf("all ordered pairs of %d filters (depth <= 3), distinct and equal values, x %d names", len(FA), len(NQ)),
		"trees holding two filters, with two distinct values and with the same value under both (each value once); and the one-filter tree reached by adding the second filter and taking it out again (Remove / Empty): same answers as the tree that never held it",
		func(emit func(job)) {
			for _, f1 := range FA {
				for _, f2 := range FA {
					for _, n := range NQ {
						emit(job{kind: "match", stored: []string{f1, f2}, q: n})
						emit(job{kind: "match", stored: []string{f1, f2}, q: n, same: true})
						// the one-filter set reached through a two-filter tree (second filter removed / emptied again)
						emit(job{kind: "match-rm", stored: []string{f1, f2}, q: n})
						emit(job{kind: "match-rm", stored: []string{f1, f2}, q: n, same: true})
					}
				}
			}
		})
	part("two-names", fmt.Sprintf("all ordered pairs of %d names (depth <= 3), distinct and equal values, x %d filters", len(NA), len(FQ)),
		"trees holding two names, searched with every filter",
		func(emit func(job)) {
			for _, n1 := range NA {
				for _, n2 := range NA {
					for _, f := range FQ {
						emit(job{kind: "search", stored: []string{n1, n2}, q: f})
						emit(job{kind: "search", stored: []string{n1, n2}, q: f, same: true})
						emit(job{kind: "search-rm", stored: []string{n1, n2}, q: f})
						emit(job{kind: "search-rm", stored: []string{n1, n2}, q: f, same: true})
					}
				}
			}
		})
	if thorough {
		part("three-filters", fmt.Sprintf("all triples of %d filters (depth <= 2) x %d names (depth <= 3)", len(F2), len(N3)), "trees holding three filters",
			func(emit func(job)) {
				for _, f1 := range F2 {
					for _, f2 := range F2 {
						for _, f3 := range F2 {
							for _, n := range N3 {
								emit(job{kind: "match", stored: []string{f1, f2, f3}, q: n})
							}
						}
					}
				}
			})
		part("three-names", fmt.Sprintf("all triples of %d names (depth <= 2) x %d filters (depth <= 3)", len(N2), len(F3)), "trees holding three names",
			func(emit func(job)) {
				for _, n1 := range N2 {
					for _, n2 := range N2 {
						for _, n3 := range N2 {
							for _, f := range F3 {
								emit(job{kind: "search", stored: []string{n1, n2, n3}, q: f})
							}
						}
					}
				}
			})
	}
	// (3) structured family: long chains, multi-byte levels
	lv := []string{"é", "é", "日本", "A", "a", "ab", "a b", "$SYS"}
	var longN, longF []string
	for _, l := range lv {
		chain := strings.Repeat(l+"/", 11) + l
		longN = append(longN, chain, "/"+chain, chain+"/", l, l+"/"+l)
		longF = append(longF, chain, strings.Repeat("+/", 11)+l, strings.Repeat("+/", 11)+"+", strings.Repeat(l+"/", 11)+"#", strings.Repeat(l+"/", 12)+"#", strings.Repeat(l+"/", 10)+"#", l+"/+", "+/"+l, l+"/#", l)
	}
	longF = append(longF, "#", "+", "+/#")
	part("long-and-multibyte", fmt.Sprintf("%d filters x %d names: depth-12 chains and levels {é, e+U+0301, 日本, A, a, ab, 'a b', $SYS}", len(longF), len(longN)),
		"every pair of the family in both directions (byte-exact comparison: é vs e+combining accent, A vs a)",
		func(emit func(job)) {
			for _, f := range longF {
				for _, n := range longN {
					emit(job{kind: "match", stored: []string{f}, q: n})
					emit(job{kind: "search", stored: []string{n}, q: f})
				}
			}
		})
}

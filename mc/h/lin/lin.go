// Package lin runs a small concurrent program against a real object under the
// controlled scheduler and decides linearizability of the recorded history
// against a sequential reference model by brute force.
package lin

import (
	"fmt"
	"strings"

	"verif/explore"
	"verif/vrt"
)

// Op is one operation of the alphabet: Do acts on the real object, Ref on the
// reference model; both render their result as a string.
type Op struct {
	Name string
	Do   func(sys interface{}) string
	Ref  func(model interface{}) string
}

type Spec struct {
	New      func() interface{}
	NewModel func() interface{}
	Ops      []Op
	// Final observes the quiescent end state (optional); it must agree with
	// the model state after the chosen linearization.
	Final    func(sys interface{}) string
	FinalRef func(model interface{}) string
	// After runs at the very end with the real object and every result (optional extra clauses, e.g. snapshots).
	After func(x *explore.X, sys interface{})
}

type rec struct {
	thread, op int
	call, ret  int
	res        string
	done       bool
}

// Programs enumerates all programs of the given shape over nops operations,
// threads being unordered (programs equal up to thread permutation appear once).
func Programs(nops int, shape []int) [][][]int {
	var out [][][]int
	var seqs func(n int) [][]int
	seqs = func(n int) [][]int {
		if n == 0 {
			return [][]int{nil}
		}
		var r [][]int
		for _, s := range seqs(n - 1) {
			for o := 0; o < nops; o++ {
				r = append(r, append(append([]int{}, s...), o))
			}
		}
		return r
	}
	key := func(s []int) string { return fmt.Sprint(s) }
	var rec func(i int, cur [][]int)
	rec = func(i int, cur [][]int) {
		if i == len(shape) {
			out = append(out, append([][]int{}, cur...))
			return
		}
		for _, s := range seqs(shape[i]) {
			// canonical order among threads of equal length
			if i > 0 && shape[i] == shape[i-1] && key(s) < key(cur[i-1]) {
				continue
			}
			rec(i+1, append(cur, s))
		}
	}
	rec(0, nil)
	return out
}

func progString(spec *Spec, prog [][]int) string {
	var ts []string
	for _, t := range prog {
		var os []string
		for _, o := range t {
			os = append(os, spec.Ops[o].Name)
		}
		ts = append(ts, strings.Join(os, ";"))
	}
	return strings.Join(ts, " || ")
}

// Run executes prog on a fresh object (one controlled thread per program
// thread) and checks the history. It must be called from the harness main thread.
func Run(x *explore.X, spec *Spec, prog [][]int) {
	sys := spec.New()
	clock := 0
	var recs []*rec
	for ti, ops := range prog {
		for _, o := range ops {
			recs = append(recs, &rec{thread: ti, op: o})
		}
	}
	idx := 0
	for ti, ops := range prog {
		mine := recs[idx : idx+len(ops)]
		idx += len(ops)
		_ = ti
		go func(mine []*rec) {
			for _, r := range mine {
				clock++
				r.call = clock
				r.res = spec.Ops[r.op].Do(sys)
				clock++
				r.ret = clock
				r.done = true
			}
		}(mine)
	}
	vrt.Quiesce()
	ps := progString(spec, prog)
	x.Logf("program: %s", ps)
	var hist []string
	for _, r := range recs {
		if !r.done {
			x.Failf("no-deadlock", "lin-stuck:"+spec.Ops[r.op].Name, "operation %s of thread %d never returned (program %s)", spec.Ops[r.op].Name, r.thread, ps)
			return
		}
		hist = append(hist, fmt.Sprintf("t%d %s [%d,%d] -> %s", r.thread, spec.Ops[r.op].Name, r.call, r.ret, r.res))
	}
	for _, h := range hist {
		x.Logf("  %s", h)
	}
	final := ""
	if spec.Final != nil {
		final = spec.Final(sys)
		x.Logf("  final: %s", final)
	}
	var resv []string
	for _, r := range recs {
		resv = append(resv, r.res)
	}
	x.Outcome(strings.Join(resv, ",") + "|" + final)
	if len(prog) > 1 {
		x.Note("concurrent")
	}
	// brute-force search for a linearization
	n := len(recs)
	used := make([]bool, n)
	order := make([]int, 0, n)
	var try func() bool
	try = func() bool {
		// rebuild the model along order and compare results
		m := spec.NewModel()
		for _, i := range order {
			if spec.Ops[recs[i].op].Ref(m) != recs[i].res {
				return false
			}
		}
		if len(order) == n {
			if spec.Final != nil && spec.FinalRef(m) != final {
				return false
			}
			return true
		}
		for i := 0; i < n; i++ {
			if used[i] {
				continue
			}
			// real-time order: every op that returned before i was called must already be in order
			ok := true
			for j := 0; j < n; j++ {
				if !used[j] && j != i && recs[j].ret < recs[i].call {
					ok = false
					break
				}
			}
			if !ok {
				continue
			}
			used[i] = true
			order = append(order, i)
			if try() {
				return true
			}
			order = order[:len(order)-1]
			used[i] = false
		}
		return false
	}
	if !try() {
		var names []string
		for _, r := range recs {
			names = append(names, spec.Ops[r.op].Name)
		}
		x.Failf("linearizable", "lin:"+ps, "history is not linearizable w.r.t. the reference model\nprogram: %s\n%s\nfinal: %s", ps, strings.Join(hist, "\n"), final)
	}
	if spec.After != nil {
		spec.After(x, sys)
	}
}

// Package pubsub holds the history harnesses for C06 (delivery to exactly the
// matching subscribers, once, intact, QoS-capped) and C11 (retained set):
// scripted clients around the real broker, a reference model of subscription
// tables and of the retained map, every client's inbox compared with the
// model's expectation after every event at quiescence.
package pubsub

import (
	"encoding/json"
	"fmt"
	"sort"
	"strings"
	"time"

	"github.com/256dpi/gomqtt/broker"
	"github.com/256dpi/gomqtt/packet"

	"verif/explore"
	"verif/h/env"
	"verif/ref"
	"verif/report"
	"verif/vrt"
)

type params struct {
	Mode    string // table | multi | retained
	Depth   int
	Clients int
	Full    bool // full alphabet (thorough)
	Real    bool // the broker talks through the real transport.BaseConn over a byte-stream view of the pipes
}

func init() {
	report.Register("C06", report.Check{Level: "model_checking", QuickBudget: 240 * time.Second, ThoroughBudget: 25 * time.Minute, Run: runC06})
	report.Register("C11", report.Check{Level: "model_checking", QuickBudget: 240 * time.Second, ThoroughBudget: 25 * time.Minute, Run: runC11})
	explore.Register("pubsub.hist", func(p string) explore.Harness {
		var pr params
		json.Unmarshal([]byte(p), &pr)
		return func(x *explore.X) { history(x, pr) }
	})
}

/* ---------- reference model ---------- */

type retMsg struct {
	payload string
	qos     packet.QOS
}

type model struct {
	subs     map[string]map[string]packet.QOS // client id -> filter -> granted qos
	online   map[string]bool
	retained map[string]retMsg
}

func newModel() *model {
	return &model{subs: map[string]map[string]packet.QOS{}, online: map[string]bool{}, retained: map[string]retMsg{}}
}

type expect struct {
	topic, payload string
	retain         bool
	qos            map[packet.QOS]bool // allowed delivery QoS values
}

func minQ(a, b packet.QOS) packet.QOS {
	if a < b {
		return a
	}
	return b
}

// allowed QoS for a message of qos q on topic t towards client id (nil if no subscription matches)
func (m *model) allowed(id, t string, q packet.QOS) map[packet.QOS]bool {
	var out map[packet.QOS]bool
	for f, sq := range m.subs[id] {
		if ref.Matches(f, t) {
			if out == nil {
				out = map[packet.QOS]bool{}
			}
			out[minQ(q, sq)] = true
		}
	}
	return out
}

// publish applies a publish to the model and returns the expected live deliveries per client.
func (m *model) publish(t, payload string, q packet.QOS, retain bool) map[string][]expect {
	if retain {
		if payload != "" {
			m.retained[t] = retMsg{payload, q}
		} else {
			delete(m.retained, t)
		}
	}
	out := map[string][]expect{}
	for id := range m.subs {
		if !m.online[id] {
			continue
		}
		if al := m.allowed(id, t, q); al != nil {
			out[id] = append(out[id], expect{t, payload, false, al})
		}
	}
	return out
}

// subscribe applies a SUBSCRIBE and returns the retained messages the subscriber must receive.
func (m *model) subscribe(id string, subs []packet.Subscription) []expect {
	if m.subs[id] == nil {
		m.subs[id] = map[string]packet.QOS{}
	}
	for _, s := range subs {
		m.subs[id][s.Topic] = s.QOS
	}
	var out []expect
	for _, s := range subs {
		var ts []string
		for t := range m.retained {
			if ref.Matches(s.Topic, t) {
				ts = append(ts, t)
			}
		}
		sort.Strings(ts)
		for _, t := range ts {
			r := m.retained[t]
			out = append(out, expect{t, r.payload, true, m.allowed(id, t, r.qos)})
		}
	}
	return out
}

func (m *model) unsubscribe(id string, filters []string) {
	for _, f := range filters {
		delete(m.subs[id], f)
	}
}

/* ---------- comparison ---------- */

func expStr(es []expect) string {
	var s []string
	for _, e := range es {
		var qs []int
		for q := range e.qos {
			qs = append(qs, int(q))
		}
		sort.Ints(qs)
		r := ""
		if e.retain {
			r = "r"
		}
		s = append(s, fmt.Sprintf("%s=%q/q%v%s", e.topic, e.payload, qs, r))
	}
	sort.Strings(s)
	return "[" + strings.Join(s, " ") + "]"
}

func gotStr(ds []env.Delivery) string {
	var s []string
	for _, d := range ds {
		s = append(s, d.String())
	}
	sort.Strings(s)
	return "[" + strings.Join(s, " ") + "]"
}

// compare matches received deliveries against expectations (as multisets).
// It returns a list of (clause, detail).
func compare(got []env.Delivery, want []expect) [][2]string {
	var fails [][2]string
	used := make([]bool, len(want))
	for _, d := range got {
		found := -1
		// exact candidates first (same topic, payload, retain flag, allowed qos)
		for i, e := range want {
			if !used[i] && e.topic == d.Topic && e.payload == d.Payload && e.retain == d.Retain && e.qos[d.QOS] {
				found = i
				break
			}
		}
		if found >= 0 {
			used[found] = true
			continue
		}
		// diagnose
		for i, e := range want {
			if !used[i] && e.topic == d.Topic && e.payload == d.Payload {
				found = i
				break
			}
		}
		if found >= 0 {
			used[found] = true
			e := want[found]
			if e.retain != d.Retain {
				if e.retain {
					fails = append(fails, [2]string{"retained-flag", fmt.Sprintf("retained message %s arrived with the retain flag clear", d)})
				} else {
					fails = append(fails, [2]string{"live-flag-cleared", fmt.Sprintf("live delivery %s arrived with the retain flag set", d)})
				}
			}
			if !e.qos[d.QOS] {
				fails = append(fails, [2]string{"qos-capped", fmt.Sprintf("%s arrived at QoS %d, allowed %v", d, d.QOS, expStr([]expect{e}))})
			}
			continue
		}
		dup := false
		for _, e := range want {
			if e.topic == d.Topic && e.payload == d.Payload {
				dup = true
			}
		}
		if dup {
			fails = append(fails, [2]string{"exactly-once", fmt.Sprintf("an extra copy of %s arrived", d)})
		} else {
			fails = append(fails, [2]string{"only-matching", fmt.Sprintf("%s arrived although nothing entitles the client to it", d)})
		}
	}
	for i, e := range want {
		if !used[i] {
			fails = append(fails, [2]string{"all-matching", fmt.Sprintf("%s never arrived", expStr([]expect{e}))})
		}
	}
	return fails
}

/* ---------- the harness ---------- */

type hist struct {
	x   *explore.X
	pr  params
	w   *env.World
	m   *model
	cl  map[string]*env.Client
	ids []string
	seq int
	ev  string // current event (signature context)
	evs []string
}

func (h *hist) last() string {
	if len(h.evs) == 0 {
		return "(setup)"
	}
	return h.evs[len(h.evs)-1]
}

func (h *hist) all() []*env.Client {
	var cs []*env.Client
	for _, id := range h.ids {
		cs = append(cs, h.cl[id])
	}
	return cs
}

func (h *hist) connect(id string, clean bool, will *packet.Message) {
	c := h.w.NewClient(id)
	h.cl[id] = c
	found := false
	for _, i := range h.ids {
		if i == id {
			found = true
		}
	}
	if !found {
		h.ids = append(h.ids, id)
	}
	c.Connect(clean, will)
	h.m.online[id] = true
	if clean {
		delete(h.m.subs, id)
	}
}

func (h *hist) fresh() string {
	h.seq++
	return fmt.Sprintf("m%d", h.seq)
}

// verify compares every client's new deliveries with want (by client id).
func (h *hist) verify(want map[string][]expect, what string) {
	for _, id := range h.ids {
		c := h.cl[id]
		got := c.TakeGot()
		for _, f := range compare(got, want[id]) {
			h.x.Failf(f[0], f[0]+" @ "+what+" after "+h.last(), "client %s, %s: %s\nreceived %s, expected %s\nsubscriptions of %s: %v; retained: %v\nhistory: %s",
				id, what, f[1], gotStr(got), expStr(want[id]), id, h.m.subs[id], h.m.retained, strings.Join(h.evs, "; "))
		}
		if len(got) > 0 {
			h.x.Note("delivery")
		}
		if c.ClosedByBroker() && h.m.online[id] {
			h.x.Failf("stays-connected", "closed @ "+what+" after "+h.last(), "the broker closed the connection of %s during %s", id, what)
		}
	}
}

func (h *hist) subscribe(id string, subs ...packet.Subscription) {
	c := h.cl[id]
	n := len(c.Subacks)
	pid := c.NextID()
	c.Send(env.Subscribe(pid, subs...))
	want := map[string][]expect{id: h.m.subscribe(id, subs)}
	h.w.Run(h.all()...)
	// SUBACK: same id, requested codes in order
	if len(c.Subacks) != n+1 {
		h.x.Failf("suback", "no-suback after "+h.last(), "SUBSCRIBE(%v) by %s got %d SUBACKs", subs, id, len(c.Subacks)-n)
	} else {
		sa := c.Subacks[n]
		ok := sa.ID == pid && len(sa.ReturnCodes) == len(subs)
		for i := range subs {
			if ok && sa.ReturnCodes[i] != subs[i].QOS {
				ok = false
			}
		}
		if !ok {
			h.x.Failf("suback", "suback-codes after "+h.last(), "SUBSCRIBE(%d,%v) by %s answered by %s", pid, subs, id, env.Short(sa))
		}
	}
	if len(want[id]) > 0 {
		h.x.Note("retained-replay")
	}
	h.verify(want, "subscribe")
}

func (h *hist) unsubscribe(id string, filters ...string) {
	c := h.cl[id]
	n := len(c.Unsubacks)
	c.Send(env.Unsubscribe(c.NextID(), filters...))
	h.m.unsubscribe(id, filters)
	h.w.Run(h.all()...)
	if len(c.Unsubacks) != n+1 {
		h.x.Failf("unsuback", "no-unsuback after "+h.last(), "UNSUBSCRIBE(%v) by %s got %d UNSUBACKs", filters, id, len(c.Unsubacks)-n)
	}
	h.verify(nil, "unsubscribe")
}

func (h *hist) publish(id, t, payload string, q packet.QOS, retain bool) {
	c := h.cl[id]
	pid := c.Pub(t, payload, q, retain)
	want := h.m.publish(t, payload, q, retain)
	h.w.Run(h.all()...)
	if q > 0 && c.Acked[pid] != 1 {
		h.x.Failf("publisher-acked", "publish-unacked after "+h.last(), "%s published %s (QoS %d) and got %d acknowledgements", id, payload, q, c.Acked[pid])
	}
	h.verify(want, fmt.Sprintf("publish(%s,q%d,retain=%v,empty=%v)", t, q, retain, payload == ""))
}

var qosAll = []packet.QOS{0, 1, 2}

func sub(f string, q packet.QOS) packet.Subscription { return packet.Subscription{Topic: f, QOS: q} }

type event struct {
	name string
	do   func(h *hist)
}

func tableEvents(full bool) []event {
	filters := []string{"a/b", "a/+", "a/#", "#", "b"}
	var evs []event
	for _, f := range filters {
		for _, q := range qosAll {
			f, q := f, q
			evs = append(evs, event{fmt.Sprintf("s:SUBSCRIBE(%s:%d)", f, q), func(h *hist) { h.subscribe("s", sub(f, q)) }})
		}
	}
	qp := [][2]packet.QOS{{0, 2}, {2, 0}, {1, 0}}
	for _, f1 := range filters {
		for _, f2 := range filters {
			if f1 == f2 {
				continue
			}
			if !full && !(f1 == "b" || f2 == "b" || (f1 == "a/b" && f2 == "a/#") || (f1 == "a/#" && f2 == "a/b")) {
				continue
			}
			for _, q := range qp {
				f1, f2, q := f1, f2, q
				evs = append(evs, event{fmt.Sprintf("s:SUBSCRIBE(%s:%d,%s:%d)", f1, q[0], f2, q[1]), func(h *hist) { h.subscribe("s", sub(f1, q[0]), sub(f2, q[1])) }})
			}
		}
	}
	if full {
		evs = append(evs, event{"s:SUBSCRIBE(b:0,a/b:1,#:2)", func(h *hist) { h.subscribe("s", sub("b", 0), sub("a/b", 1), sub("#", 2)) }},
			event{"s:SUBSCRIBE(a/+:2,b:1,a/#:0,a/b:1)", func(h *hist) { h.subscribe("s", sub("a/+", 2), sub("b", 1), sub("a/#", 0), sub("a/b", 1)) }})
	}
	for _, f := range filters {
		f := f
		evs = append(evs, event{fmt.Sprintf("s:UNSUBSCRIBE(%s)", f), func(h *hist) { h.unsubscribe("s", f) }})
	}
	evs = append(evs, event{"s:reconnect-unclean", func(h *hist) {
		h.cl["s"].Drop()
		h.m.online["s"] = false
		h.w.Run(h.all()...)
		h.connect("s", false, nil)
		h.w.Run(h.all()...)
		h.verify(nil, "reconnect")
	}})
	return evs
}

// nestedEvents: filters that are prefixes of one another (a value-bearing node of the subscription tree with a
// single branch below it), subscribed and unsubscribed in every order.
func nestedEvents() []event {
	var evs []event
	for _, f := range []string{"a", "a/b", "a/b/c", "a/#", "+/b"} {
		f := f
		evs = append(evs, event{fmt.Sprintf("s:SUBSCRIBE(%s:1)", f), func(h *hist) { h.subscribe("s", sub(f, 1)) }})
		evs = append(evs, event{fmt.Sprintf("s:UNSUBSCRIBE(%s)", f), func(h *hist) { h.unsubscribe("s", f) }})
	}
	return evs
}

func (h *hist) probe() {
	if h.pr.Mode == "nested" {
		for _, t := range []string{"a", "a/b", "a/b/c", "x/b"} {
			h.publish("p", t, h.fresh(), 1, false)
			if h.x.Failed() {
				return
			}
		}
		return
	}
	for _, t := range []string{"a/b", "a", "a/b/c", "b"} {
		for _, q := range qosAll {
			h.publish("p", t, h.fresh(), q, false)
			if h.x.Failed() {
				return
			}
		}
	}
}

func multiEvents(n int, full bool) []event {
	ids := []string{"A", "B", "C"}[:n]
	filters := []string{"a/b", "a/#", "b"}
	topics := []string{"a/b", "b"}
	var evs []event
	for _, id := range ids {
		id := id
		for _, f := range filters {
			for _, q := range qosAll {
				f, q := f, q
				if !full && q == 1 && f != "a/b" {
					continue
				}
				evs = append(evs, event{fmt.Sprintf("%s:SUBSCRIBE(%s:%d)", id, f, q), func(h *hist) { h.subscribe(id, sub(f, q)) }})
			}
			f := f
			evs = append(evs, event{fmt.Sprintf("%s:UNSUBSCRIBE(%s)", id, f), func(h *hist) { h.unsubscribe(id, f) }})
		}
		for _, t := range topics {
			for _, q := range qosAll {
				t, q := t, q
				evs = append(evs, event{fmt.Sprintf("%s:PUBLISH(%s,q%d)", id, t, q), func(h *hist) { h.publish(id, t, h.fresh(), q, false) }})
			}
		}
		evs = append(evs, event{id + ":reconnect-unclean", func(h *hist) {
			h.cl[id].Drop()
			h.m.online[id] = false
			h.w.Run(h.all()...)
			h.connect(id, false, nil)
			h.w.Run(h.all()...)
			h.verify(nil, "reconnect")
		}})
	}
	return evs
}

var probeFilters = func() []string {
	// every filter over levels {a, b, +} up to depth 2, optionally ending in '#', and '#'
	var out []string
	lv := []string{"a", "b", "+"}
	for _, l := range lv {
		out = append(out, l, l+"/#")
		for _, l2 := range lv {
			out = append(out, l+"/"+l2, l+"/"+l2+"/#")
		}
	}
	return append(out, "#")
}()

func retainedEvents(full bool) []event {
	// (b/a next to a/b: a '+' level followed by a literal one then has siblings with and without that child)
	topics := []string{"a", "a/b", "b", "b/a"}
	var evs []event
	for _, t := range topics {
		for _, q := range qosAll {
			t, q := t, q
			evs = append(evs, event{fmt.Sprintf("P:PUBLISH(%s,q%d,retain)", t, q), func(h *hist) { h.publish("P", t, h.fresh(), q, true) }})
		}
		t := t
		evs = append(evs, event{fmt.Sprintf("P:PUBLISH(%s,retain,empty)", t), func(h *hist) { h.publish("P", t, "", 0, true) }})
		evs = append(evs, event{fmt.Sprintf("P:PUBLISH(%s,q1,no-retain)", t), func(h *hist) { h.publish("P", t, h.fresh(), 1, false) }})
		if full {
			evs = append(evs, event{fmt.Sprintf("P:PUBLISH(%s,q1,retain,empty)", t), func(h *hist) { h.publish("P", t, "", 1, true) }})
			evs = append(evs, event{fmt.Sprintf("P:PUBLISH(%s,no-retain,empty)", t), func(h *hist) { h.publish("P", t, "", 0, false) }})
		}
	}
	// republishing byte-identical payloads at a different QoS must still replace the retained message
	for _, q := range []packet.QOS{0, 2} {
		q := q
		evs = append(evs, event{fmt.Sprintf("P:PUBLISH(a,q%d,retain,same-payload)", q), func(h *hist) { h.publish("P", "a", "same", q, true) }})
	}
	evs = append(evs, event{"W:dies-with-will(a,q1,retain,same-payload)", func(h *hist) {
		h.connect("W", true, &packet.Message{Topic: "a", Payload: []byte("same"), QOS: 1, Retain: true})
		h.w.Run(h.all()...)
		h.cl["W"].Drop()
		h.m.online["W"] = false
		want := h.m.publish("a", "same", 1, true)
		h.w.Run(h.all()...)
		h.verify(want, "will")
	}})
	// a retained will with an empty payload clears the retained message of its topic, like any such publish
	evs = append(evs, event{"W:dies-with-will(a,retain,empty)", func(h *hist) {
		h.connect("W", true, &packet.Message{Topic: "a", Payload: []byte{}, QOS: 0, Retain: true})
		h.w.Run(h.all()...)
		h.cl["W"].Drop()
		h.m.online["W"] = false
		want := h.m.publish("a", "", 0, true)
		h.w.Run(h.all()...)
		h.verify(want, "will")
	}})
	for _, q := range qosAll {
		q := q
		// a client with a retained will dies: the will counts as a publish
		evs = append(evs, event{fmt.Sprintf("W:dies-with-will(a/b,q%d,retain)", q), func(h *hist) {
			payload := h.fresh()
			h.connect("W", true, &packet.Message{Topic: "a/b", Payload: []byte(payload), QOS: q, Retain: true})
			h.w.Run(h.all()...)
			h.cl["W"].Drop()
			h.m.online["W"] = false
			want := h.m.publish("a/b", payload, q, true)
			h.w.Run(h.all()...)
			h.verify(want, "will")
		}})
	}
	evs = append(evs, event{"W:dies-with-will(b,q1,no-retain)", func(h *hist) {
		payload := h.fresh()
		h.connect("W", true, &packet.Message{Topic: "b", Payload: []byte(payload), QOS: 1})
		h.w.Run(h.all()...)
		h.cl["W"].Drop()
		h.m.online["W"] = false
		want := h.m.publish("b", payload, 1, false)
		h.w.Run(h.all()...)
		h.verify(want, "will")
	}})
	for _, f := range []string{"a/#", "+", "b"} {
		for _, q := range qosAll {
			f, q := f, q
			if !full && q == 1 {
				continue
			}
			evs = append(evs, event{fmt.Sprintf("S:SUBSCRIBE(%s:%d)", f, q), func(h *hist) { h.subscribe("S", sub(f, q)) }})
		}
	}
	evs = append(evs, event{"S:SUBSCRIBE(a/#:0,+:2)", func(h *hist) { h.subscribe("S", sub("a/#", 0), sub("+", 2)) }})
	evs = append(evs, event{"T:reconnect-unclean", func(h *hist) {
		// persistent subscriber of '#': reconnecting must not replay retained messages (only SUBSCRIBE does)
		h.cl["T"].Drop()
		h.m.online["T"] = false
		h.w.Run(h.all()...)
		h.connect("T", false, nil)
		h.w.Run(h.all()...)
		h.verify(nil, "reconnect")
	}})
	return evs
}

// probeRetained subscribes a probe client to every filter of the probe set in turn.
func (h *hist) probeRetained() {
	for i, f := range probeFilters {
		q := qosAll[i%3]
		h.subscribe("probe", sub(f, q))
		h.unsubscribe("probe", f)
		if h.x.Failed() {
			return
		}
	}
}

func history(x *explore.X, pr params) {
	h := &hist{x: x, pr: pr, m: newModel(), cl: map[string]*env.Client{}}
	h.w = env.NewWorld(x, func(m *broker.MemoryBackend) { m.SessionQueueSize = 64 })
	h.w.Real = pr.Real
	var evs []event
	switch pr.Mode {
	case "table":
		h.connect("s", false, nil)
		h.connect("p", true, nil)
		evs = tableEvents(pr.Full)
	case "nested":
		h.connect("s", false, nil)
		h.connect("p", true, nil)
		evs = nestedEvents()
	case "multi":
		for _, id := range []string{"A", "B", "C"}[:pr.Clients] {
			h.connect(id, false, nil)
		}
		evs = multiEvents(pr.Clients, pr.Full)
	case "retained":
		h.connect("P", true, nil)
		h.connect("S", true, nil)
		h.connect("T", false, nil)
		h.connect("probe", true, nil)
		evs = retainedEvents(pr.Full)
	}
	h.w.Run(h.all()...)
	if pr.Mode == "retained" {
		h.subscribe("T", sub("#", 1))
	}
	h.verify(nil, "setup")
	for step := 0; step < pr.Depth; step++ {
		e := evs[vrt.Choose(len(evs), "event")]
		h.evs = append(h.evs, e.name)
		x.Logf("%s", e.name)
		e.do(h)
		if x.Failed() {
			return
		}
		switch pr.Mode {
		case "table", "nested":
			h.probe()
		case "retained":
			h.probeRetained()
		}
		if x.Failed() {
			return
		}
		x.Event(h.fingerprint())
	}
}

func (h *hist) fingerprint() string {
	var b strings.Builder
	var ids []string
	for id := range h.m.subs {
		ids = append(ids, id)
	}
	sort.Strings(ids)
	for _, id := range ids {
		var fs []string
		for f, q := range h.m.subs[id] {
			fs = append(fs, fmt.Sprintf("%s:%d", f, q))
		}
		sort.Strings(fs)
		fmt.Fprintf(&b, "%s{%s}", id, strings.Join(fs, ","))
	}
	var ts []string
	for t, r := range h.m.retained {
		ts = append(ts, fmt.Sprintf("%s:q%d", t, r.qos))
	}
	sort.Strings(ts)
	fmt.Fprintf(&b, "|ret{%s}", strings.Join(ts, ","))
	return b.String()
}

func explorePart(r *report.Report, name string, p params, bound int, nontrivial ...string) {
	js, _ := json.Marshal(p)
	st := explore.Explore(explore.Config{Harness: "pubsub.hist", Params: string(js), Bound: bound, Workers: report.Workers(), Deadline: r.Deadline()})
	r.AddExploration(name, "history", fmt.Sprintf("all event sequences of depth %d, mode %s, %d clients, full alphabet %v, over transport.BaseConn %v, delay bound %d", p.Depth, p.Mode, p.Clients, p.Full, p.Real, bound), st,
		"one execution = one history; after every event every client's inbox is compared at quiescence with the reference model (multiset of topic/payload/retain flag, QoS within the allowed capped set); states = distinct (subscription tables, retained set) reached; non-trivial = comparisons in which at least one delivery arrived (counted)",
		nontrivial...)
}

func assumptions(r *report.Report) {
	r.Assume("all clients are protocol-conformant scripted peers over codec pipes; every delivery is acknowledged at once, so queues never fill (window and loss behaviour are C16/C08)",
		"history mode: the broker runs to exact quiescence after every packet exchange; 'nothing else arrives' is decided by quiescence, not by timing",
		"delivery QoS must lie in {min(published, granted_f) : f a matching filter of the client}; ordering inside one inbox is not compared here (C15)",
		"payload sizes 0..64 KiB of the quantifier are replaced by short unique tags plus the empty payload")
}

func runC06(r *report.Report) {
	assumptions(r)
	th := r.Tier == "thorough"
	if !th {
		explorePart(r, "table-depth2", params{Mode: "table", Depth: 2}, 0, "delivery")
		explorePart(r, "nested-filters-depth4", params{Mode: "nested", Depth: 4}, 0, "delivery")
		explorePart(r, "multi-2clients", params{Mode: "multi", Depth: 4, Clients: 2}, 0, "delivery")
		explorePart(r, "multi-2clients-reordered", params{Mode: "multi", Depth: 2, Clients: 2}, 1, "delivery")
		explorePart(r, "multi-2clients-over-baseconn", params{Mode: "multi", Depth: 3, Clients: 2, Real: true}, 0, "delivery")
	} else {
		explorePart(r, "multi-2clients-over-baseconn", params{Mode: "multi", Depth: 4, Clients: 2, Real: true}, 0, "delivery")
		explorePart(r, "table-depth3", params{Mode: "table", Depth: 3, Full: true}, 0, "delivery")
		explorePart(r, "nested-filters-depth5", params{Mode: "nested", Depth: 5}, 0, "delivery")
		// (smaller parts first: the internal budget, if it is reached, then cuts only the largest one)
		explorePart(r, "table-reordered", params{Mode: "table", Depth: 1, Full: true}, 2, "delivery")
		explorePart(r, "multi-2clients-reordered", params{Mode: "multi", Depth: 3, Clients: 2}, 1, "delivery")
		explorePart(r, "multi-3clients", params{Mode: "multi", Depth: 3, Clients: 3, Full: true}, 0, "delivery")
		explorePart(r, "multi-2clients", params{Mode: "multi", Depth: 5, Clients: 2}, 0, "delivery")
	}
}

func runC11(r *report.Report) {
	assumptions(r)
	r.Assume(fmt.Sprintf("after every event a probe client subscribes to each of the %d filters over levels {a,b,+} up to depth 2 (with and without trailing '#') in turn and its retained replay is compared", len(probeFilters)))
	if r.Tier != "thorough" {
		explorePart(r, "retained-depth3", params{Mode: "retained", Depth: 3}, 0, "retained-replay")
		explorePart(r, "retained-reordered", params{Mode: "retained", Depth: 1}, 1, "retained-replay")
	} else {
		explorePart(r, "retained-depth3-full", params{Mode: "retained", Depth: 3, Full: true}, 0, "retained-replay")
		explorePart(r, "retained-reordered2", params{Mode: "retained", Depth: 1}, 2, "retained-replay")
		explorePart(r, "retained-depth4", params{Mode: "retained", Depth: 4}, 0, "retained-replay") // the largest part last
	}
}

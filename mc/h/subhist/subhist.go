// Package subhist: history exploration of the broker's outbound side towards
// one persistent subscriber that controls its acknowledgements, with faults
// at every packet. It decides C08 (nothing accepted is lost, retransmission,
// session-present, clean discards) and C16 (inflight window, token
// conservation, progress) - the clause set is selected by a parameter.
package subhist

import (
	"encoding/json"
	"fmt"
	"sort"
	"strings"
	"time"

	"github.com/256dpi/gomqtt/broker"
	"github.com/256dpi/gomqtt/packet"
	"github.com/256dpi/gomqtt/session"

	"verif/explore"
	"verif/h/env"
	"verif/report"
	"verif/vrt"
)

type params struct {
	Prop   string // C08 | C16: which clause set is evaluated
	Depth  int
	Window int
	QOS    []int // publish qos values in the alphabet
	Clean  bool  // alphabet includes clean connects
	Faults bool  // alphabet includes write/read faults (drop is always there)
	Ooo    bool  // acknowledgements may be sent out of order
	Bystander bool // a second, online subscriber holds a QoS 0 subscription to the same topic
	Queue  int  // session queue capacity (0 = 16, more than any history needs); 1 makes publishes wait for room
	Race   bool // alphabet includes "drop+publish": the connection is lost and a message published at the same moment
	NoDrop bool // the subscriber stays connected (no drop / fault events): with a small queue nothing may be lost to capacity
	Real   bool // the broker writes / reads through the real transport.BaseConn (buffered writer, flush timer) over the pipe
	Stray  bool // alphabet includes "stray-puback": the subscriber acknowledges again what it has already acknowledged (or an id never used)
}

func init() {
	report.Register("C08", report.Check{Level: "model_checking", QuickBudget: 240 * time.Second, ThoroughBudget: 25 * time.Minute, Run: runC08})
	report.Register("C16", report.Check{Level: "model_checking", QuickBudget: 240 * time.Second, ThoroughBudget: 25 * time.Minute, Run: runC16})
	explore.Register("subhist", func(p string) explore.Harness {
		var pr params
		json.Unmarshal([]byte(p), &pr)
		return func(x *explore.X) { history(x, pr) }
	})
}

// what the subscriber knows about one message in flight towards it
type flight struct {
	id      packet.ID
	tag     string
	qos     packet.QOS
	gotRel  bool // PUBREL received (QoS 2)
	sentRec bool // PUBREC sent on some connection (and processed by the broker)
	recConn bool // PUBREC sent on the current connection
	counted bool // occupies a window slot on the current connection
}

type st struct {
	x      *explore.X
	pr     params
	w      *env.World
	sub    *env.Peer
	helper *env.Client
	client *broker.Client // broker-side client of the current subscriber connection
	sess   broker.Session

	subscribed   bool            // the persistent session holds the subscription
	haveSession  bool            // a stored session exists at the broker
	expectTags   map[string]bool // tags published at QoS>0 while the persistent subscription existed (must arrive)
	received     map[string]int  // copies received per tag (any connection)
	nondup       map[string]int  // copies received with DUP clear per tag
	tagQOS       map[string]packet.QOS
	pending      []*flight // unacknowledged deliveries, in order of first receipt
	nmsg         int
	unackedConn  int  // QoS>0 PUBLISH/PUBREL received on this connection minus final acks sent (window clause)
	maxUnacked   int
	resumed      bool // this connection resumed a session: first packets are retransmissions
	storeAtLoss  []string
	sawNew       bool
	evname       string
	discarded    map[string]bool // tags published before the last clean connect: must never be delivered afterwards
	lastAcked    packet.ID       // id of the latest final acknowledgement (stray-puback repeats it)
}

func (s *st) on(prop string) bool { return s.pr.Prop == prop }

func (s *st) connected() bool { return s.sub != nil && !s.sub.Closed() }

func (s *st) find(id packet.ID) *flight {
	for _, f := range s.pending {
		if f.id == id {
			return f
		}
	}
	return nil
}

func (s *st) remove(f *flight) {
	for i, g := range s.pending {
		if g == f {
			s.pending = append(s.pending[:i:i], s.pending[i+1:]...)
			return
		}
	}
}

// onBrokerWrite runs at the instant the broker writes a packet to the subscriber.
func (s *st) onBrokerWrite(pkt packet.Generic) {
	p, ok := pkt.(*packet.Publish)
	if !ok {
		return
	}
	if p.Message.QOS == 0 {
		if q := s.tagQOS[string(p.Message.Payload)]; q > 0 && s.on("C08") {
			s.x.Failf("recorded-before-sent", fmt.Sprintf("q%d-message-sent-at-q0", q), "message %s was published at QoS %d to a subscriber holding a QoS 2 subscription but is transmitted at QoS 0, i.e. without being recorded in the session", string(p.Message.Payload), q)
		}
		return
	}
	if s.on("C08") {
		var stored packet.Generic
		cl := s.client
		if cl == nil {
			if evs := s.w.Rec.Calls("Setup", s.sub.Name); len(evs) > 0 {
				cl = evs[0].Client
			}
		}
		vrt.Atomic(func() {
			if cl != nil && cl.Session() != nil {
				stored, _ = cl.Session().LookupPacket(session.Outgoing, p.ID)
			}
		})
		sp, isPub := stored.(*packet.Publish)
		if !isPub || string(sp.Message.Payload) != string(p.Message.Payload) {
			s.x.Failf("recorded-before-sent", "publish-sent-before-stored:q"+fmt.Sprint(p.Message.QOS), "%s is being written while the session's outgoing store holds %v under id %d", env.Short(p), stored, p.ID)
		}
	}
}

func (s *st) storeDump() []string {
	var out []string
	vrt.Atomic(func() {
		if s.sess == nil {
			return
		}
		all, _ := s.sess.AllPackets(session.Outgoing)
		for _, p := range all {
			if p == nil {
				out = append(out, "NIL-ENTRY") // a store that lists an id it holds no packet for
				continue
			}
			switch q := p.(type) {
			case *packet.Publish:
				out = append(out, fmt.Sprintf("PUBLISH(%d,%s)", q.ID, string(q.Message.Payload)))
			case *packet.Pubrel:
				out = append(out, fmt.Sprintf("PUBREL(%d)", q.ID))
			default:
				out = append(out, env.Short(p))
			}
		}
	})
	sort.Strings(out)
	return out
}

// drain processes what the broker wrote to the subscriber.
func (s *st) drain() string {
	if s.sub == nil {
		return ""
	}
	out := s.sub.Drain()
	var retrans []string
	for _, pkt := range out {
		switch p := pkt.(type) {
		case *packet.Connack:
			wantSP := s.resumed
			if s.on("C08") && p.SessionPresent != wantSP {
				s.x.Failf("session-present", fmt.Sprintf("session-present=%v-want-%v", p.SessionPresent, wantSP), "CONNACK reports session-present=%v but a stored session %s resumed", p.SessionPresent, map[bool]string{true: "was", false: "was not"}[wantSP])
			}
		case *packet.Publish:
			tag := string(p.Message.Payload)
			if s.discarded[tag] && s.on("C08") {
				s.x.Failf("clean-discards", "delivered-after-clean-connect", "message %s was published before a clean-session connect of the subscriber and is delivered after it (stored state was not discarded)", tag)
			}
			s.received[tag]++
			if !p.Dup {
				s.nondup[tag]++
				if s.on("C08") && s.nondup[tag] > 1 && p.Message.QOS > 0 {
					s.x.Failf("retransmit-flagged-dup", fmt.Sprintf("second-nondup-copy:q%d", p.Message.QOS), "message %s (QoS %d) was sent a second time with the duplicate flag clear", tag, p.Message.QOS)
				}
				if p.Message.QOS > 0 {
					s.sawNew = true
				}
			}
			if p.Message.QOS == 0 {
				continue
			}
			if p.Dup && !s.sawNew {
				retrans = append(retrans, fmt.Sprintf("PUBLISH(%d,%s)", p.ID, tag))
			}
			f := s.find(p.ID)
			if f == nil || f.tag != tag {
				if f != nil {
					s.remove(f)
				}
				f = &flight{id: p.ID, tag: tag, qos: p.Message.QOS}
				s.pending = append(s.pending, f)
			}
			s.occupy(f, env.Short(p))
		case *packet.Pubrel:
			f := s.find(p.ID)
			if f == nil {
				continue
			}
			if !f.recConn {
				// no PUBREC was sent on this connection: this PUBREL is a retransmission after a resume
				if !s.sawNew {
					retrans = append(retrans, fmt.Sprintf("PUBREL(%d)", p.ID))
				}
				s.occupy(f, env.Short(p))
			}
			f.gotRel = true
		}
	}
	if s.resumed && len(out) > 0 && s.on("C08") && s.storeAtLoss != nil {
		// the retransmissions (before anything new) must be exactly what the store held when the connection was lost
		sort.Strings(retrans)
		if strings.Join(retrans, " ") != strings.Join(s.storeAtLoss, " ") {
			s.x.Failf("retransmit-on-resume", "retransmission-set-differs", "after the unclean reconnect the broker retransmitted [%s] but the session's outgoing store held [%s] when the connection was lost", strings.Join(retrans, " "), strings.Join(s.storeAtLoss, " "))
		} else if len(retrans) > 0 {
			s.x.Note("retransmission")
		}
		s.storeAtLoss = nil
	}
	return env.Shorts(out)
}

// occupy counts a window slot for f on the current connection (once).
func (s *st) occupy(f *flight, what string) {
	if f.counted {
		return
	}
	f.counted = true
	s.unackedConn++
	if s.unackedConn > s.maxUnacked {
		s.maxUnacked = s.unackedConn
	}
	if s.on("C16") && s.unackedConn > s.pr.Window {
		s.x.Failf("window-respected", "window-exceeded", "%d QoS>0 messages are sent and unacknowledged towards the subscriber on this connection (retransmissions included), the window is %d (latest: %s)", s.unackedConn, s.pr.Window, what)
	}
}

func (s *st) release(f *flight) {
	if f.counted {
		f.counted = false
		s.unackedConn--
	}
	s.remove(f)
}

func (s *st) connLost() {
	// called when the subscriber's connection is found closed: remember what the store holds
	if s.sess != nil && s.storeAtLoss == nil {
		s.storeAtLoss = s.storeDump()
		if s.storeAtLoss == nil {
			s.storeAtLoss = []string{}
		}
	}
	for _, f := range s.pending {
		f.recConn = false
		f.counted = false
	}
}

// model of what the outgoing store must hold at quiescence
func (s *st) checkStore() {
	if !s.on("C08") || s.sess == nil {
		return
	}
	var want []string
	for _, f := range s.pending {
		if f.qos == 2 && f.sentRec {
			want = append(want, fmt.Sprintf("PUBREL(%d)", f.id))
		} else {
			want = append(want, fmt.Sprintf("PUBLISH(%d,%s)", f.id, f.tag))
		}
	}
	sort.Strings(want)
	have := s.storeDump()
	// everything the subscriber has not finally acknowledged must still be recorded; the store may hold more
	// (a message saved whose PUBLISH write failed was never seen by the subscriber)
	hm := map[string]bool{}
	for _, h := range have {
		hm[h] = true
	}
	for _, wnt := range want {
		if !hm[wnt] {
			s.x.Failf("recorded-until-acked", "unacked-not-recorded:"+strings.Split(wnt, "(")[0], "the subscriber has not acknowledged %s but the session's outgoing store holds only [%s] after %s", wnt, strings.Join(have, " "), s.evname)
		}
	}
}

func (s *st) checkTokens() {
	if !s.on("C16") || s.client == nil || !s.connected() || len(vrt.LiveByTag(s.sub.Name)) == 0 {
		return
	}
	n, c, ok := env.ChanLen(s.client, "dequeueTokens")
	if !ok {
		s.x.Note("token-invariant-skipped")
		return
	}
	inDequeue := 0
	for _, e := range s.w.Rec.InProgress() {
		if e.Hook == "Dequeue" && e.Conn == s.sub.Name {
			inDequeue++
		}
	}
	stored := len(s.storeDump())
	if c != s.pr.Window {
		s.x.Failf("window-configured", "token-capacity", "dequeue token capacity is %d, configured window %d", c, s.pr.Window)
	}
	if n+stored+inDequeue != c {
		s.x.Failf("tokens-conserved", fmt.Sprintf("tokens-%d+stored-%d+dequeuing-%d!=%d", n, stored, inDequeue, c), "free dequeue tokens (%d) + packets in the outgoing store (%d) + dequeuer holding a token (%d) != window (%d) after %s", n, stored, inDequeue, c, s.evname)
	}
}

func history(x *explore.X, pr params) {
	s := &st{x: x, pr: pr, expectTags: map[string]bool{}, received: map[string]int{}, nondup: map[string]int{}, tagQOS: map[string]packet.QOS{}}
	s.w = env.NewWorld(x, func(m *broker.MemoryBackend) {
		m.ClientInflightMessages = pr.Window
		m.SessionQueueSize = 16
		if pr.Queue > 0 {
			m.SessionQueueSize = pr.Queue
		}
	})
	s.w.Real = pr.Real
	s.helper = s.w.NewClient("h")
	s.helper.Connect(true, nil)
	var by *env.Client
	if pr.Bystander {
		by = s.w.NewClient("z")
		by.Connect(true, nil)
		by.Send(env.Subscribe(1, packet.Subscription{Topic: "t", QOS: 0}))
	}
	connect := func(clean bool) {
		s.sub = s.w.Dial("s")
		s.sub.BEnd.OnSend = s.onBrokerWrite
		s.client, s.sess = nil, nil
		s.unackedConn = 0
		s.sawNew = false
		s.resumed = !clean && s.haveSession
		if clean {
			if s.discarded == nil {
				s.discarded = map[string]bool{}
			}
			for tag := range s.tagQOS {
				if s.received[tag] == 0 {
					s.discarded[tag] = true
				}
			}
			s.haveSession = false
			s.subscribed = false
			s.pending = nil
			s.expectTags = map[string]bool{}
			s.storeAtLoss = nil
		} else {
			s.haveSession = true
		}
		s.sub.Send(env.Connect("s", clean, nil))
	}
	settle := func() string {
		s.w.Run(s.helper, by)
		if s.client == nil && s.sub != nil {
			if evs := s.w.Rec.Calls("Setup", s.sub.Name); len(evs) > 0 && evs[0].Ret != 0 && evs[0].Err == nil {
				s.client = evs[0].Client
				s.sess = s.client.Session()
			}
		}
		got := s.drain()
		if s.sub != nil && s.sub.Closed() {
			s.connLost()
		}
		return got
	}
	// set-up: persistent subscriber with a QoS 2 subscription
	connect(false)
	settle()
	s.sub.Send(env.Subscribe(1, packet.Subscription{Topic: "t", QOS: 2}))
	s.subscribed = true
	settle()
	for step := 0; step < pr.Depth; step++ {
		var evs []string
		for _, q := range pr.QOS {
			evs = append(evs, fmt.Sprintf("publish(q%d)", q))
		}
		if s.connected() {
			for i := range s.pending {
				if i > 0 && !pr.Ooo {
					break
				}
				if i > 1 {
					break
				}
				f := s.pending[i]
				if f.qos == 2 && f.gotRel || f.qos == 1 || (f.qos == 2 && !f.recConn) {
					evs = append(evs, fmt.Sprintf("ack(%d)", i))
				}
			}
			if !pr.NoDrop {
				evs = append(evs, "drop")
			}
			if pr.Race {
				evs = append(evs, "drop+publish(q1)")
			}
			if pr.Stray {
				evs = append(evs, "stray-puback")
			}
			if pr.Faults {
				evs = append(evs, "fail-next-write-before", "fail-next-write-after", "fail-next-read")
			}
		} else {
			evs = append(evs, "connect-unclean")
			if pr.Clean {
				evs = append(evs, "connect-clean")
			}
		}
		ev := evs[vrt.Choose(len(evs), "event")]
		s.evname = ev
		var k int
		switch {
		case strings.HasPrefix(ev, "publish"):
			var q int
			fmt.Sscanf(ev, "publish(q%d)", &q)
			s.nmsg++
			tag := fmt.Sprintf("m%d", s.nmsg)
			s.tagQOS[tag] = packet.QOS(q)
			if q > 0 && s.subscribed {
				s.expectTags[tag] = true
			}
			s.helper.Pub("t", tag, packet.QOS(q), false)
		case strings.HasPrefix(ev, "ack"):
			fmt.Sscanf(ev, "ack(%d)", &k)
			f := s.pending[k]
			switch {
			case f.qos == 1:
				s.sub.Send(env.Puback(f.id))
				s.lastAcked = f.id
				s.release(f)
			case f.qos == 2 && f.gotRel:
				s.sub.Send(env.Pubcomp(f.id))
				s.lastAcked = f.id
				s.release(f)
			default:
				s.sub.Send(env.Pubrec(f.id))
				f.sentRec = true
				f.recConn = true
			}
			x.Note("ack")
		case ev == "stray-puback":
			// a repeated (or never solicited) PUBACK names no recorded message: everything unacknowledged stays recorded and is
			// retransmitted after a reconnect, however many window slots the broker believes to be free
			id := s.lastAcked
			if id == 0 || s.find(id) != nil {
				id = 0xFFF0
			}
			s.sub.Send(env.Puback(id))
			x.Note("stray-ack")
		case ev == "drop":
			s.sub.Drop()
			x.Note("fault")
		case ev == "drop+publish(q1)":
			// the broker learns of the lost connection and of a new message at the same moment: whichever way the two
			// are interleaved the message fits into the session's queue and must not be lost
			s.nmsg++
			tag := fmt.Sprintf("m%d", s.nmsg)
			s.tagQOS[tag] = 1
			if s.subscribed {
				s.expectTags[tag] = true
			}
			s.sub.Drop()
			s.helper.Pub("t", tag, 1, false)
			x.Note("fault")
		case ev == "fail-next-write-before":
			s.sub.BEnd.FailSend(1, env.FailBefore)
			x.Note("fault")
		case ev == "fail-next-write-after":
			s.sub.BEnd.FailSend(1, env.FailAfter)
			x.Note("fault")
		case ev == "fail-next-read":
			s.sub.BEnd.FailReceive()
			x.Note("fault")
		case ev == "connect-unclean":
			connect(false)
		case ev == "connect-clean":
			connect(true)
		}
		got := settle()
		x.Logf("%-24s <- %-40s store=[%s]", ev, got, strings.Join(s.storeDump(), " "))
		s.checkStore()
		s.checkTokens()
		x.Event(s.fingerprint())
		if x.Failed() {
			return
		}
	}
	// progress / nothing lost: reconnect if necessary and acknowledge everything until nothing moves
	s.evname = "(final: reconnect and acknowledge everything)"
	if !s.connected() {
		connect(false)
	}
	for round := 0; round < 64; round++ {
		got := settle()
		if !s.connected() {
			// a fault armed earlier may strike now: reconnect once more
			connect(false)
			continue
		}
		if len(s.pending) == 0 && got == "" {
			break
		}
		for len(s.pending) > 0 {
			// one acknowledgement at a time, each sent at quiescence on an open connection (so that it is processed)
			f := s.pending[0]
			if !s.connected() {
				break
			}
			switch {
			case f.qos == 1:
				s.sub.Send(env.Puback(f.id))
				s.release(f)
				settle()
			case f.gotRel:
				s.sub.Send(env.Pubcomp(f.id))
				s.release(f)
				settle()
			default:
				s.sub.Send(env.Pubrec(f.id))
				f.sentRec, f.recConn = true, true
				settle()
				if !f.gotRel && s.connected() {
					x.Failf("handshake-continues", "pubrec-without-pubrel", "the subscriber sent PUBREC(%d) on a live connection and no PUBREL followed", f.id)
					s.release(f)
				}
				// if the connection was lost meanwhile the flight stays pending and the outer loop reconnects
			}
		}
	}
	x.Logf("%-24s    received=%v", s.evname, s.received)
	var lost []string
	for tag := range s.expectTags {
		if s.received[tag] == 0 {
			lost = append(lost, tag)
		}
	}
	sort.Strings(lost)
	if len(lost) > 0 && s.connected() {
		if s.on("C08") {
			x.Failf("nothing-lost", fmt.Sprintf("lost-q%d", s.tagQOS[lost[0]]), "messages %v were accepted at QoS>0 while the persistent subscription existed, the subscriber reconnected and acknowledged everything, yet they never arrived", lost)
		} else {
			x.Failf("delivery-keeps-flowing", fmt.Sprintf("stalled-q%d", s.tagQOS[lost[0]]), "the subscriber acknowledges everything it receives but messages %v are never delivered (window slots lost?)", lost)
		}
	}
	s.checkStore()
	s.checkTokens()
	if s.maxUnacked >= pr.Window {
		x.Note("window-full")
	}
}

func (s *st) fingerprint() string {
	var b strings.Builder
	fmt.Fprintf(&b, "c=%v;sub=%v;", s.connected(), s.subscribed)
	for _, f := range s.pending {
		fmt.Fprintf(&b, "%d:q%d,%v,%v;", f.id, f.qos, f.sentRec, f.gotRel)
	}
	fmt.Fprintf(&b, "store=%s", strings.Join(s.storeDump(), ","))
	if s.client != nil && s.connected() {
		if n, _, ok := env.ChanLen(s.client, "dequeueTokens"); ok {
			fmt.Fprintf(&b, ";tok=%d", n)
		}
	}
	return b.String()
}

func part(r *report.Report, name string, p params, bound int) {
	js, _ := json.Marshal(p)
	st := explore.Explore(explore.Config{Harness: "subhist", Params: string(js), Bound: bound, Workers: report.Workers(), Deadline: r.Deadline()})
	r.AddExploration(name, "history", fmt.Sprintf("all histories of depth %d (window %d, publish qos %v, clean connects %v, write/read faults %v, out-of-order acks %v, QoS 0 bystander %v, over transport.BaseConn %v, queue capacity %d (0 = 16), subscriber stays connected %v, repeated/unsolicited PUBACKs %v), delay bound %d, each followed by a reconnect-and-acknowledge-everything epilogue", p.Depth, p.Window, p.QOS, p.Clean, p.Faults, p.Ooo, p.Bystander, p.Real, p.Queue, p.NoDrop, p.Stray, bound), st,
		"one execution = one history of publisher/subscriber/fault events; instant clauses at every broker write, store/token clauses at every quiescence, loss/progress clause after the epilogue; non-trivial = fault, acknowledgement and retransmission events (counted)",
		"fault", "ack", "retransmission", "stray-ack")
}

func assume(r *report.Report) {
	r.Assume("one persistent subscriber (QoS 2 subscription) and one helper publisher over codec pipes; the subscriber is protocol-conformant and controls when it acknowledges (the stray-pubacks parts add one departure: a PUBACK repeating the latest acknowledgement or naming an id never used)",
		"faults: peer drop, broker write failing before/after the transfer, broker read failing; queue capacity (16) exceeds the history depth, so capacity-drops never occur",
		"history mode at delay bound 0 plus a pass with one scheduling deviation per history on shorter histories",
		"acknowledgements sent on an open connection are processed by the broker before the next event (quiescence between events)")
}

func runC08(r *report.Report) {
	assume(r)
	if r.Tier != "thorough" {
		part(r, "w1-all-faults", params{Prop: "C08", Depth: 6, Window: 1, QOS: []int{1, 2}, Clean: true, Faults: true}, 0)
		part(r, "w2-all-faults", params{Prop: "C08", Depth: 6, Window: 2, QOS: []int{0, 1, 2}, Faults: true, Ooo: true}, 0)
		part(r, "w2-reordered", params{Prop: "C08", Depth: 4, Window: 2, QOS: []int{1, 2}, Faults: true}, 1)
		part(r, "w1-bystander", params{Prop: "C08", Depth: 5, Window: 1, QOS: []int{1, 2}, Bystander: true}, 0)
		part(r, "w2-loss-racing-publish", params{Prop: "C08", Depth: 2, Window: 2, QOS: []int{1}, Race: true}, 2)
		part(r, "w2-drops-over-baseconn", params{Prop: "C08", Depth: 6, Window: 2, QOS: []int{1, 2}, Clean: true, Ooo: true, Real: true}, 0)
		part(r, "w1-stray-pubacks", params{Prop: "C08", Depth: 6, Window: 1, QOS: []int{1, 2}, Stray: true}, 0)
	} else {
		part(r, "w1-stray-pubacks", params{Prop: "C08", Depth: 8, Window: 1, QOS: []int{1, 2}, Stray: true, Faults: true}, 0)
		part(r, "w2-stray-pubacks", params{Prop: "C08", Depth: 8, Window: 2, QOS: []int{1, 2}, Stray: true, Ooo: true}, 0)
		part(r, "w2-drops-over-baseconn", params{Prop: "C08", Depth: 7, Window: 2, QOS: []int{1, 2}, Clean: true, Ooo: true, Real: true}, 0)
		part(r, "w2-loss-racing-publish", params{Prop: "C08", Depth: 3, Window: 2, QOS: []int{1, 2}, Race: true}, 2)
		part(r, "w1-drops-over-baseconn-reordered", params{Prop: "C08", Depth: 4, Window: 1, QOS: []int{1, 2}, Real: true}, 1)
		part(r, "w2-bystander", params{Prop: "C08", Depth: 7, Window: 2, QOS: []int{0, 1, 2}, Bystander: true, Faults: true}, 0)
		part(r, "w1-all-faults", params{Prop: "C08", Depth: 8, Window: 1, QOS: []int{0, 1, 2}, Clean: true, Faults: true}, 0)
		part(r, "w2-all-faults", params{Prop: "C08", Depth: 8, Window: 2, QOS: []int{0, 1, 2}, Clean: true, Faults: true, Ooo: true}, 0)
		part(r, "w3-drops", params{Prop: "C08", Depth: 9, Window: 3, QOS: []int{1, 2}, Ooo: true}, 0)
		part(r, "w2-reordered", params{Prop: "C08", Depth: 5, Window: 2, QOS: []int{1, 2}, Faults: true}, 1)
		part(r, "w1-reordered2", params{Prop: "C08", Depth: 4, Window: 1, QOS: []int{2}, Faults: true}, 2)
	}
}

func runC16(r *report.Report) {
	assume(r)
	r.Assume("token conservation is an invariant over implementation state read by reflection (dequeueTokens channel, outgoing store, in-progress Dequeue calls); if the field is absent the clause is skipped and counted under 'token-invariant-skipped'")
	if r.Tier != "thorough" {
		part(r, "w1", params{Prop: "C16", Depth: 6, Window: 1, QOS: []int{0, 1, 2}, Faults: true}, 0)
		part(r, "w2", params{Prop: "C16", Depth: 6, Window: 2, QOS: []int{0, 1, 2}, Ooo: true}, 0)
		part(r, "w2-reordered", params{Prop: "C16", Depth: 4, Window: 2, QOS: []int{1, 2}}, 1)
		part(r, "w2-over-baseconn", params{Prop: "C16", Depth: 6, Window: 2, QOS: []int{0, 1, 2}, Ooo: true, Real: true}, 0)
		part(r, "w1-queue1-connected", params{Prop: "C16", Depth: 7, Window: 1, QOS: []int{1, 2}, Queue: 1, NoDrop: true}, 0)
	} else {
		part(r, "w1-queue1-connected", params{Prop: "C16", Depth: 10, Window: 1, QOS: []int{0, 1, 2}, Queue: 1, NoDrop: true}, 0)
		part(r, "w2-queue2-connected", params{Prop: "C16", Depth: 9, Window: 2, QOS: []int{1, 2}, Queue: 2, NoDrop: true, Ooo: true}, 0)
		part(r, "w2-over-baseconn", params{Prop: "C16", Depth: 8, Window: 2, QOS: []int{0, 1, 2}, Ooo: true, Real: true}, 0)
		part(r, "w1", params{Prop: "C16", Depth: 8, Window: 1, QOS: []int{0, 1, 2}, Faults: true}, 0)
		part(r, "w2", params{Prop: "C16", Depth: 8, Window: 2, QOS: []int{0, 1, 2}, Faults: true, Ooo: true}, 0)
		part(r, "w3", params{Prop: "C16", Depth: 9, Window: 3, QOS: []int{1, 2}, Ooo: true}, 0)
		part(r, "w2-reordered", params{Prop: "C16", Depth: 5, Window: 2, QOS: []int{1, 2}}, 1)
		part(r, "w1-reordered2", params{Prop: "C16", Depth: 4, Window: 1, QOS: []int{1, 2}, Faults: true}, 2)
	}
}

// Package c07: the broker acknowledges a publisher only after the backend
// accepted the message; QoS 2 is forwarded exactly once; every PUBREL gets its PUBCOMP.
package c07

import (
	"encoding/json"
	"fmt"
	"sort"
	"strings"
	"time"

	"github.com/256dpi/gomqtt/broker"
	"github.com/256dpi/gomqtt/packet"
	"github.com/256dpi/gomqtt/session"

	"verif/explore"
	"verif/h/env"
	"verif/report"
	"verif/vrt"
)

type params struct {
	Depth int
	IDs   int  // number of concurrent packet ids (1 or 2)
	Hold  bool // alphabet includes held backend acknowledgements
	QOS   []int
	Self  bool // the publisher subscribes to its own topic, never acknowledges deliveries, window 1 and queue capacity 1: its own queue fills up and the backend starts refusing its publishes
}

func init() {
	report.Register("C07", report.Check{Level: "model_checking", QuickBudget: 240 * time.Second, ThoroughBudget: 25 * time.Minute, Run: run})
	explore.Register("C07.hist", func(p string) explore.Harness {
		var pr params
		json.Unmarshal([]byte(p), &pr)
		return func(x *explore.X) { history(x, pr) }
	})
}

type hs struct { // one open handshake
	tag    string
	qos    packet.QOS
	gotRec bool
	relOut bool // a PUBREL was sent on the current connection and no PUBCOMP came back yet
}

type world struct {
	x        *explore.X
	w        *env.World
	pub      *env.Peer
	pr       params
	open     map[packet.ID]*hs
	done     map[string]packet.QOS // completed handshakes (publisher got PUBACK/PUBCOMP)
	tagQOS   map[string]packet.QOS
	tagID    map[string]packet.ID
	pubacks  map[packet.ID]int
	owed     map[packet.ID]int // responses the broker still owes on this connection per id (each PUBLISH q>0 and each PUBREL earns one)
	nmsg     int
	client   *broker.Client
	unkRel   int // PUBRELs for an unknown id awaiting PUBCOMP on this connection
	faulted  bool
}

func (s *world) connected() bool { return s.pub != nil && !s.pub.Closed() }

// onBrokerWrite is evaluated at the instant the broker writes a packet to the publisher.
func (s *world) onBrokerWrite(pkt packet.Generic) {
	switch p := pkt.(type) {
	case *packet.Puback:
		// the n-th PUBACK(id) needs n acknowledged hand-overs of QoS 1 messages sent under that id
		// (a duplicate PUBLISH legitimately earns its own PUBACK, possibly after the id was reused)
		s.pubacks[p.ID]++
		acked := 0
		for _, e := range s.w.Rec.Calls("Publish", "") {
			if e.Acked != 0 && !e.Refused && s.tagID[e.Tag] == p.ID && s.tagQOS[e.Tag] == 1 {
				acked++
			}
		}
		if s.pubacks[p.ID] > acked {
			s.x.Failf("ack-after-accept", "PUBACK-before-backend-ack", "PUBACK(%d) #%d written although the backend has acknowledged only %d hand-over(s) of QoS 1 messages with that id", p.ID, s.pubacks[p.ID], acked)
		}
	case *packet.Pubcomp:
		h := s.open[p.ID]
		if h == nil || h.qos != 2 {
			return // PUBCOMP for an id without open QoS 2 handshake (unknown PUBREL, retransmission after completion)
		}
		acked := false
		for _, e := range s.w.Rec.Calls("Publish", "") {
			if e.Tag == h.tag && e.Acked != 0 && !e.Refused {
				acked = true
			}
		}
		if !acked {
			s.x.Failf("ack-after-accept", "PUBCOMP-before-backend-ack", "PUBCOMP(%d) for message %s written although the backend has not acknowledged (accepted) it", p.ID, h.tag)
		}
	case *packet.Pubrec:
		h := s.open[p.ID]
		if h == nil || s.client == nil {
			return
		}
		var stored packet.Generic
		vrt.Atomic(func() {
			if sess := s.client.Session(); sess != nil {
				stored, _ = sess.LookupPacket(session.Incoming, p.ID)
			}
		})
		pub, ok := stored.(*packet.Publish)
		if !ok || string(pub.Message.Payload) != h.tag {
			s.x.Failf("pubrec-after-store", "PUBREC-before-store", "PUBREC(%d) for message %s written while the publisher's session holds %v under that id", p.ID, h.tag, stored)
		}
	}
}

func (s *world) drain() string {
	if s.pub == nil {
		return ""
	}
	out := s.pub.Drain()
	for _, pkt := range out {
		if id, ok := packet.GetID(pkt); ok && s.owed[id] > 0 {
			s.owed[id]--
		}
		switch p := pkt.(type) {
		case *packet.Pubrec:
			if h := s.open[p.ID]; h != nil && h.qos == 2 {
				h.gotRec = true
			}
		case *packet.Puback:
			if h := s.open[p.ID]; h != nil && h.qos == 1 {
				s.done[h.tag] = 1
				delete(s.open, p.ID)
			}
		case *packet.Pubcomp:
			if h := s.open[p.ID]; h != nil && h.qos == 2 {
				// a conformant publisher treats PUBCOMP as the end of the handshake
				s.done[h.tag] = 2
				delete(s.open, p.ID)
			} else if p.ID == 9 && s.unkRel > 0 {
				s.unkRel--
			}
		}
	}
	return env.Shorts(out)
}

func (s *world) check(ev string) {
	for tag, n := range s.w.Rec.Accepted {
		if s.tagQOS[tag] == 2 && n > 1 {
			s.x.Failf("qos2-exactly-once", "qos2-forwarded-twice"+s.variant(tag), "QoS 2 message %s was handed to the backend and accepted %d times", tag, n)
		}
	}
	for tag, q := range s.done {
		n := s.w.Rec.Accepted[tag]
		if q == 2 && n != 1 {
			s.x.Failf("qos2-exactly-once", fmt.Sprintf("qos2-completed-with-%d-forwards", n)+s.variant(tag), "QoS 2 handshake of %s completed (PUBCOMP received) with %d accepted hand-overs", tag, n)
		}
		if q == 1 && n < 1 {
			s.x.Failf("qos1-at-least-once", "qos1-acked-without-forward", "QoS 1 message %s was acknowledged (PUBACK received) but never accepted by the backend", tag)
		}
	}
	// token conservation: with the connection up, nothing in flight and nothing held, all publish tokens are back
	if s.connected() && len(s.open) == 0 && len(s.w.Rec.Held) == 0 && s.client != nil && s.unkRel == 0 {
		if n, c, ok := env.ChanLen(s.client, "publishTokens"); ok && n != c {
			s.x.Failf("publish-tokens", "tokens-not-returned", "no handshake is open but only %d of %d publish tokens are available after %s", n, c, ev)
		}
	}
}

func history(x *explore.X, pr params) {
	s := &world{x: x, pr: pr, open: map[packet.ID]*hs{}, done: map[string]packet.QOS{}, tagQOS: map[string]packet.QOS{}, tagID: map[string]packet.ID{}, pubacks: map[packet.ID]int{}, owed: map[packet.ID]int{}}
	s.w = env.NewWorld(x, func(m *broker.MemoryBackend) {
		m.ClientParallelPublishes = 2
		if pr.Self {
			m.SessionQueueSize = 1
			m.ClientInflightMessages = 1
		}
	})
	if pr.Hold {
		s.w.Rec.HoldAcks = true
	}
	for step := 0; step < pr.Depth; step++ {
		var evs []string
		if !s.connected() {
			evs = append(evs, "connect")
		} else {
			for id := packet.ID(1); id <= packet.ID(pr.IDs); id++ {
				h := s.open[id]
				if h == nil {
					if s.owed[id] > 0 {
						// responses to earlier transmissions with this id are still outstanding on this connection:
						// a publisher that reused the id now could not tell them from responses to the new message
						continue
					}
					for _, q := range pr.QOS {
						evs = append(evs, fmt.Sprintf("publish-new(%d,q%d)", id, q))
					}
				} else {
					if !h.gotRec {
						evs = append(evs, fmt.Sprintf("publish-dup(%d)", id))
					} else {
						evs = append(evs, fmt.Sprintf("pubrel(%d)", id))
					}
				}
			}
			evs = append(evs, "pubrel-unknown(9)", "drop", "fail-next-write-before", "fail-next-write-after", "fail-next-read")
		}
		for i := range s.w.Rec.Held {
			evs = append(evs, fmt.Sprintf("release-ack(%d)", i))
			if i == 0 {
				evs = append(evs, "release-ack-from-thread(0)")
			}
		}
		ev := evs[vrt.Choose(len(evs), "event")]
		var id packet.ID
		var q int
		name := ev
		if i := strings.Index(ev, "("); i >= 0 {
			name = ev[:i]
			fmt.Sscanf(ev[i:], "(%d,q%d)", &id, &q)
			if q == 0 {
				fmt.Sscanf(ev[i:], "(%d)", &id)
			}
		}
		switch name {
		case "connect":
			s.pub = s.w.Dial("p")
			s.pub.BEnd.OnSend = s.onBrokerWrite
			s.client = nil
			s.unkRel = 0
			s.owed = map[packet.ID]int{}
			for _, h := range s.open {
				h.relOut = false
			}
			s.pub.Send(env.Connect("p", false, nil))
			if pr.Self {
				s.pub.Send(env.Subscribe(100, packet.Subscription{Topic: "t", QOS: 1}))
			}
		case "publish-new":
			s.nmsg++
			h := &hs{tag: fmt.Sprintf("m%d", s.nmsg), qos: packet.QOS(q)}
			s.open[id] = h
			s.tagQOS[h.tag] = h.qos
			s.tagID[h.tag] = id
			s.owed[id]++
			s.pub.Send(env.Publish(id, "t", h.tag, h.qos, false, false))
		case "publish-dup":
			h := s.open[id]
			s.owed[id]++
			s.pub.Send(env.Publish(id, "t", h.tag, h.qos, false, true))
			x.Note("retransmitted-publish")
		case "pubrel":
			if s.open[id].relOut {
				x.Note("retransmitted-pubrel")
			}
			s.open[id].relOut = true
			s.owed[id]++
			s.pub.Send(env.Pubrel(id))
		case "pubrel-unknown":
			s.unkRel++
			s.pub.Send(env.Pubrel(9))
		case "drop":
			s.pub.Drop()
			x.Note("fault")
		case "fail-next-write-before":
			s.pub.BEnd.FailSend(1, env.FailBefore)
			x.Note("fault")
		case "fail-next-write-after":
			s.pub.BEnd.FailSend(1, env.FailAfter)
			x.Note("fault")
		case "fail-next-read":
			s.pub.BEnd.FailReceive()
			x.Note("fault")
		case "release-ack":
			s.w.Rec.ReleaseAck(int(id))
			x.Note("late-ack")
		case "release-ack-from-thread":
			rec := s.w.Rec
			go func() { rec.ReleaseAck(0) }()
			x.Note("late-ack")
		}
		s.w.Settle()
		if s.client == nil && s.pub != nil {
			if evs := s.w.Rec.Calls("Setup", s.pub.Name); len(evs) > 0 {
				s.client = evs[0].Client
			}
		}
		got := s.drain()
		x.Logf("%-28s <- %s", ev, got)
		s.check(ev)
		x.Event(s.fingerprint())
		if x.Failed() {
			return
		}
	}
	// termination of handshakes: release everything that is held; every PUBREL sent on the live connection must be answered
	s.w.Rec.HoldAcks = false
	for len(s.w.Rec.Held) > 0 {
		s.w.Rec.ReleaseAck(0)
		s.w.Settle()
	}
	s.w.Settle()
	got := s.drain()
	x.Logf("%-28s <- %s", "(release all held acks)", got)
	s.check("final release")
	if s.connected() {
		for id, h := range s.open {
			if h.relOut {
				x.Failf("pubrel-answered", "pubrel-without-pubcomp", "PUBREL(%d) for %s was sent on a connection that is still open, all backend acks were released, yet no PUBCOMP arrived", id, h.tag)
			}
		}
		if s.unkRel > 0 {
			x.Failf("pubrel-answered", "unknown-pubrel-without-pubcomp", "PUBREL for an unknown packet id was not answered by PUBCOMP on a connection that is still open")
		}
	}
	if len(s.done) > 0 {
		x.Note("handshake-completed")
	}
}

// variant classifies a repeated hand-over: ":backend-ack-pending" if the message was handed to the backend
// again while the acknowledgement of an earlier hand-over had not been invoked yet (late/held backend ack).
func (s *world) variant(tag string) string {
	var prev *env.Ev
	for _, e := range s.w.Rec.Calls("Publish", "") {
		if e.Tag != tag {
			continue
		}
		if prev != nil && (prev.Acked == 0 || prev.Acked > e.T) {
			return ":backend-ack-pending"
		}
		prev = e
	}
	return ""
}

func (s *world) fingerprint() string {
	var b strings.Builder
	fmt.Fprintf(&b, "c=%v;", s.connected())
	var ids []int
	for id := range s.open {
		ids = append(ids, int(id))
	}
	sort.Ints(ids)
	for _, id := range ids {
		h := s.open[packet.ID(id)]
		fmt.Fprintf(&b, "%d:q%d,rec=%v,acc=%d;", id, h.qos, h.gotRec, s.w.Rec.Accepted[h.tag])
	}
	fmt.Fprintf(&b, "held=%d;done=%d", len(s.w.Rec.Held), len(s.done))
	if s.client != nil {
		vrt.Atomic(func() { b.WriteString(";in=" + env.StoreDump(s.client.Session(), session.Incoming)) })
	}
	return b.String()
}

func run(r *report.Report) {
	r.Assume("the publisher is protocol-conformant: a new PUBLISH only for an id without open handshake and without responses still owed to earlier transmissions of that id on the connection, PUBREL only after PUBREC; retransmissions may happen at any time, not only after a reconnect",
		"connection = codec pipe (real Encode/Decode per packet, FIN semantics on peer close); faults: peer drop, broker write failing before/after transfer, broker read failing",
		"history mode at delay bound 0: one default schedule per history, broker threads run to quiescence between events; an extra pass at delay bound 1 on shorter histories reorders them inside each step",
		"'accepted' = the ack closure handed to Backend.Publish has been invoked by the (recording) backend")
	type cfgT struct {
		name  string
		p     params
		bound int
	}
	var cfgs []cfgT
	if r.Tier == "quick" {
		cfgs = []cfgT{
			{"one-id-sync", params{Depth: 8, IDs: 1, QOS: []int{1, 2}}, 0},
			{"two-ids-sync", params{Depth: 7, IDs: 2, QOS: []int{1, 2}}, 0},
			{"one-id-held", params{Depth: 7, IDs: 1, Hold: true, QOS: []int{1, 2}}, 0},
			{"one-id-sync-reordered", params{Depth: 6, IDs: 1, QOS: []int{2}}, 1},
			{"one-id-own-queue-full", params{Depth: 8, IDs: 1, QOS: []int{1, 2}, Self: true}, 0},
		}
	} else {
		cfgs = []cfgT{
			{"one-id-sync", params{Depth: 9, IDs: 1, QOS: []int{1, 2}}, 0},
			{"two-ids-sync", params{Depth: 8, IDs: 2, QOS: []int{1, 2}}, 0},
			{"one-id-held", params{Depth: 8, IDs: 1, Hold: true, QOS: []int{1, 2}}, 0},
			{"two-ids-held", params{Depth: 7, IDs: 2, Hold: true, QOS: []int{2}}, 0},
			{"one-id-sync-reordered", params{Depth: 6, IDs: 1, QOS: []int{1, 2}}, 1},
			{"one-id-held-reordered", params{Depth: 5, IDs: 1, Hold: true, QOS: []int{2}}, 2},
			{"two-ids-own-queue-full", params{Depth: 8, IDs: 2, QOS: []int{1, 2}, Self: true}, 0},
		}
	}
	for _, c := range cfgs {
		js, _ := json.Marshal(c.p)
		st := explore.Explore(explore.Config{Harness: "C07.hist", Params: string(js), Bound: c.bound, Workers: report.Workers(), Deadline: r.Deadline()})
		r.AddExploration(c.name, "history", fmt.Sprintf("all histories of depth %d over the publisher/fault alphabet (%d ids, qos %v, held acks %v, publisher's own queue filling up %v), delay bound %d", c.p.Depth, c.p.IDs, c.p.QOS, c.p.Hold, c.p.Self, c.bound), st,
			"one execution = one history (root-to-leaf path of environment events), every prefix checked at quiescence; non-trivial = events that injected a fault or a retransmission or a late backend ack (counted)",
			"fault", "retransmitted-publish", "retransmitted-pubrel", "late-ack")
	}
}

// Package vtime shadows package time with a virtual clock and scheduler-owned timers.
package vtime

import (
	"time"

	"verif/vch"
	"verif/vrt"
)

type (
	Duration = time.Duration
	Time     = time.Time
	Month    = time.Month
	Weekday  = time.Weekday
	Location = time.Location
)

const (
	Nanosecond  = time.Nanosecond
	Microsecond = time.Microsecond
	Millisecond = time.Millisecond
	Second      = time.Second
	Minute      = time.Minute
	Hour        = time.Hour
	RFC3339     = time.RFC3339
)

var UTC = time.UTC

var epoch = time.Date(2020, 1, 1, 0, 0, 0, 0, time.UTC)

func Now() Time                                { return epoch.Add(Duration(vrt.NowNS())) }
func Since(t Time) Duration                    { return Now().Sub(t) }
func Until(t Time) Duration                    { return t.Sub(Now()) }
func ParseDuration(s string) (Duration, error) { return time.ParseDuration(s) }
func Unix(sec, nsec int64) Time                { return time.Unix(sec, nsec) }
func Date(y int, m Month, d, h, mi, s, ns int, l *Location) Time {
	return time.Date(y, m, d, h, mi, s, ns, l)
}

type Timer struct {
	C  *vch.Chan[Time]
	vt *vrt.VTimer
	f  func()
}

func AfterFunc(d Duration, f func()) *Timer {
	return &Timer{vt: vrt.NewTimer(int64(d), f), f: f}
}

func NewTimer(d Duration) *Timer {
	c := vch.Make[Time](1)
	t := &Timer{C: c}
	t.f = func() {
		vch.Select(true, vch.Send(c, Now()))
	}
	t.vt = vrt.NewTimer(int64(d), t.f)
	return t
}

// Reset re-arms the timer (a new timer thread with the same action); it reports whether the timer had been active.
func (t *Timer) Reset(d Duration) bool {
	was := t.vt.Stop()
	t.vt = vrt.NewTimer(int64(d), t.f)
	return was
}

func After(d Duration) *vch.Chan[Time] { return NewTimer(d).C }

func (t *Timer) Stop() bool { return t.vt.Stop() }

// Sleep waits for a timer of the given duration (racy below 100 ms, manual above - like every other timer).
func Sleep(d Duration) {
	NewTimer(d).C.Recv()
}

// Ticker: every tick re-arms the next one; at most MaxTicks ticks per ticker, so that code polling on a short ticker
// still reaches quiescence (an explicit horizon; the tree as it stands uses no ticker).
const MaxTicks = 8

type Ticker struct {
	C       *vch.Chan[Time]
	d       Duration
	vt      *vrt.VTimer
	stopped bool
	stopCh  *vch.Chan[struct{}]
	n       int
}

func NewTicker(d Duration) *Ticker {
	if d <= 0 {
		panic("non-positive interval for NewTicker")
	}
	t := &Ticker{C: vch.Make[Time](1), d: d, stopCh: vch.Make[struct{}]()}
	t.arm()
	return t
}

// a tick is delivered as soon as the consumer has taken the previous one (a real ticker drops ticks meanwhile and
// keeps ticking; what the consumer sees is the same: a tick is there whenever it looks, at most MaxTicks times)
func (t *Ticker) arm() {
	stop := t.stopCh
	t.vt = vrt.NewTimer(int64(t.d), func() {
		if t.stopped {
			return
		}
		if vch.Select(false, vch.Send(t.C, Now()), vch.Recv(stop)) != 0 {
			return
		}
		t.n++
		if t.n < MaxTicks && !t.stopped {
			t.arm()
		}
	})
}

func (t *Ticker) Stop() {
	if !t.stopped {
		t.stopped = true
		t.stopCh.Close()
	}
	t.vt.Stop()
}

func (t *Ticker) Reset(d Duration) {
	t.Stop()
	t.d = d
	t.stopped = false
	t.stopCh = vch.Make[struct{}]()
	t.arm()
}

func Tick(d Duration) *vch.Chan[Time] { return NewTicker(d).C }

// Package vtime shadows package time with a virtual clock and scheduler-owned timers.
package vtime

import (
	"time"

	"verif/vch"
	"verif/vrt"
)

type (
	Duration = time.Duration
	Time     = time.Time
	Month    = time.Month
	Weekday  = time.Weekday
	Location = time.Location
)

const (
	Nanosecond  = time.Nanosecond
	Microsecond = time.Microsecond
	Millisecond = time.Millisecond
	Second      = time.Second
	Minute      = time.Minute
	Hour        = time.Hour
	RFC3339     = time.RFC3339
)

var UTC = time.UTC

var epoch = time.Date(2020, 1, 1, 0, 0, 0, 0, time.UTC)

func Now() Time                                { return epoch.Add(Duration(vrt.NowNS())) }
func Since(t Time) Duration                    { return Now().Sub(t) }
func Until(t Time) Duration                    { return t.Sub(Now()) }
func ParseDuration(s string) (Duration, error) { return time.ParseDuration(s) }
func Unix(sec, nsec int64) Time                { return time.Unix(sec, nsec) }
func Date(y int, m Month, d, h, mi, s, ns int, l *Location) Time {
	return time.Date(y, m, d, h, mi, s, ns, l)
}

type Timer struct {
	C  *vch.Chan[Time]
	vt *vrt.VTimer
}

func AfterFunc(d Duration, f func()) *Timer {
	return &Timer{vt: vrt.NewTimer(int64(d), f)}
}

func NewTimer(d Duration) *Timer {
	c := vch.Make[Time](1)
	t := &Timer{C: c}
	t.vt = vrt.NewTimer(int64(d), func() {
		vch.Select(true, vch.Send(c, Now()))
	})
	return t
}

func After(d Duration) *vch.Chan[Time] { return NewTimer(d).C }

func (t *Timer) Stop() bool { return t.vt.Stop() }

func Sleep(d Duration) {
	<-make(chan struct{}) // unsupported in controlled mode
}

// Package transport (import path verif/wsx) is a build-time copy of
// /repo/transport/websocket_conn.go + base_conn.go compiled against
// verif/fakews instead of github.com/gorilla/websocket: /verif/check maps the
// rewritten copies into this directory through the build overlay and replaces
// this stub by an empty file. The stub only exists so that harness code
// type-checks while the rewriter runs; its methods are never executed.
package transport

import (
	"net"
	"time"

	"github.com/256dpi/gomqtt/packet"

	"verif/fakews"
)

type WebSocketConn struct{}

func NewWebSocketConn(conn *fakews.Conn) *WebSocketConn { panic("wsx stub: build through /verif/check") }

func (c *WebSocketConn) Send(pkt packet.Generic, async bool) error { panic("stub") }
func (c *WebSocketConn) Receive() (packet.Generic, error)          { panic("stub") }
func (c *WebSocketConn) Close() error                              { panic("stub") }
func (c *WebSocketConn) SetReadLimit(limit int64)                  { panic("stub") }
func (c *WebSocketConn) SetReadTimeout(timeout time.Duration)      { panic("stub") }
func (c *WebSocketConn) SetMaxWriteDelay(delay time.Duration)      { panic("stub") }
func (c *WebSocketConn) LocalAddr() net.Addr                       { panic("stub") }
func (c *WebSocketConn) RemoteAddr() net.Addr                      { panic("stub") }

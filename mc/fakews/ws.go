// Package fakews stands in for github.com/gorilla/websocket in the model of
// transport.wsStream: a scripted message-oriented connection that reproduces
// gorilla's documented reader contract (a message reader returns n>0,nil ...
// then 0,io.EOF; NextReader fails with *CloseError once the peer closed;
// a message above the read limit fails with ErrReadLimit) and records written
// messages. It is rewritten onto the controlled scheduler like harness code.
package fakews

import (
	"errors"
	"io"
	"net"
	"time"
)

const BinaryMessage = 2
const TextMessage = 1
const CloseMessage = 8
const PingMessage = 9
const PongMessage = 10

// close codes (RFC 6455, as in gorilla/websocket)
const (
	CloseNormalClosure           = 1000
	CloseGoingAway               = 1001
	CloseProtocolError           = 1002
	CloseUnsupportedData         = 1003
	CloseNoStatusReceived        = 1005
	CloseAbnormalClosure         = 1006
	CloseInvalidFramePayloadData = 1007
	ClosePolicyViolation         = 1008
	CloseMessageTooBig           = 1009
	CloseInternalServerErr       = 1011
)

// FormatCloseMessage formats a close message payload as gorilla does.
func FormatCloseMessage(closeCode int, text string) []byte {
	if closeCode == CloseNoStatusReceived {
		return []byte{}
	}
	return append([]byte{byte(closeCode >> 8), byte(closeCode)}, text...)
}

// IsCloseError / IsUnexpectedCloseError as in gorilla.
func IsCloseError(err error, codes ...int) bool {
	if e, ok := err.(*CloseError); ok {
		for _, c := range codes {
			if e.Code == c {
				return true
			}
		}
	}
	return false
}

func IsUnexpectedCloseError(err error, expected ...int) bool {
	if e, ok := err.(*CloseError); ok {
		for _, c := range expected {
			if e.Code == c {
				return false
			}
		}
		return true
	}
	return false
}

var ErrReadLimit = errors.New("websocket: read limit exceeded")
var ErrCloseSent = errors.New("websocket: close sent")
var errInjected = errors.New("fakews: injected failure")
var errTimeout = errors.New("fakews: i/o timeout")

type CloseError struct{ Code int }

func (e *CloseError) Error() string { return "websocket: close" }

// Msg is one incoming websocket message.
type Msg struct {
	Type int
	Data []byte
}

type Conn struct {
	in       chan Msg // scripted incoming messages
	Out      [][]byte // messages written by the code under test
	closed   bool
	closedCh chan struct{}
	expired  chan struct{}
	isExpired bool
	limit    int64
	MaxRead  int // a message reader hands out at most this many bytes per Read (0 = as much as fits)

	Deadlines  []time.Time
	CloseCalls int
	// fault switches: fail the n-th call from now (1 = next)
	FailNextWriter int
	FailWrite      int
	FailWriterClose int
	FailNextReader int
	FailDeadline   int
	FailClose      int

	Controls [][]byte // control frames written with WriteControl (gorilla allows them concurrently with everything else)
	closeSent bool    // a close frame was written: as in gorilla (conn.go: writeFatal(ErrCloseSent)) every later write fails
	// Block: completing a data message blocks (the peer does not read, the socket buffer is full) until the
	// connection is closed or Unblock is called
	Block     bool
	release   chan struct{}
	released  bool
	WriteDeadlines []time.Time
}

func New(capacity int) *Conn {
	return &Conn{in: make(chan Msg, capacity), closedCh: make(chan struct{}), expired: make(chan struct{}), release: make(chan struct{})}
}

// Feed queues an incoming binary message.
func (c *Conn) Feed(data []byte) { c.in <- Msg{BinaryMessage, append([]byte{}, data...)} }

// FeedMsg queues an incoming message of any type.
func (c *Conn) FeedMsg(m Msg) { c.in <- m }

// PeerClose: the peer sends a close frame after what is queued.
func (c *Conn) PeerClose() { c.in <- Msg{Type: -1} }

// ExpireReadDeadline lets a blocked NextReader fail with a timeout.
func (c *Conn) ExpireReadDeadline() {
	if !c.isExpired {
		c.isExpired = true
		close(c.expired)
	}
}

func hit(n *int) bool {
	if *n > 0 {
		*n--
		if *n == 0 {
			return true
		}
	}
	return false
}

type rd struct {
	c *Conn
	b []byte
}

func (r *rd) Read(p []byte) (int, error) {
	if len(r.b) == 0 {
		return 0, io.EOF
	}
	n := len(p)
	if r.c.MaxRead > 0 && n > r.c.MaxRead {
		n = r.c.MaxRead
	}
	n = copy(p[:n], r.b)
	r.b = r.b[n:]
	return n, nil
}

func (c *Conn) NextReader() (int, io.Reader, error) {
	if hit(&c.FailNextReader) {
		return 0, nil, errInjected
	}
	if c.closed {
		return 0, nil, errors.New("use of closed network connection")
	}
	var m Msg
	select {
	case m = <-c.in:
	default:
		select {
		case m = <-c.in:
		case <-c.closedCh:
			return 0, nil, errors.New("use of closed network connection")
		case <-c.expired:
			return 0, nil, errTimeout
		}
	}
	if m.Type == -1 {
		return 0, nil, &CloseError{1000}
	}
	if c.limit > 0 && int64(len(m.Data)) > c.limit {
		return 0, nil, ErrReadLimit
	}
	return m.Type, &rd{c, m.Data}, nil
}

type wr struct {
	c *Conn
	b []byte
}

func (w *wr) Write(p []byte) (int, error) {
	if hit(&w.c.FailWrite) {
		return 0, errInjected
	}
	w.b = append(w.b, p...)
	return len(p), nil
}

func (w *wr) Close() error {
	if hit(&w.c.FailWriterClose) {
		return errInjected
	}
	if w.c.closed {
		return ErrCloseSent
	}
	if w.c.Block {
		select {
		case <-w.c.release:
		case <-w.c.closedCh:
			return ErrCloseSent
		}
	}
	w.c.Out = append(w.c.Out, w.b)
	return nil
}

// Unblock lets blocked writes proceed.
func (c *Conn) Unblock() {
	c.Block = false
	if !c.released {
		c.released = true
		close(c.release)
	}
}

// WriteControl writes a control frame; as in gorilla it may be called concurrently with the other methods.
func (c *Conn) WriteControl(messageType int, data []byte, deadline time.Time) error {
	if c.closed || c.closeSent {
		return ErrCloseSent
	}
	c.Controls = append(c.Controls, append([]byte{byte(messageType)}, data...))
	if messageType == CloseMessage {
		c.closeSent = true
	}
	return nil
}

// WriteMessage writes a whole message (NextWriter + Write + Close).
func (c *Conn) WriteMessage(messageType int, data []byte) error {
	w, err := c.NextWriter(messageType)
	if err != nil {
		return err
	}
	if _, err := w.Write(data); err != nil {
		return err
	}
	return w.Close()
}

// ReadMessage reads a whole message (NextReader + ReadAll).
func (c *Conn) ReadMessage() (int, []byte, error) {
	t, r, err := c.NextReader()
	if err != nil {
		return t, nil, err
	}
	b, err := io.ReadAll(r)
	return t, b, err
}

func (c *Conn) SetWriteDeadline(t time.Time) error {
	c.WriteDeadlines = append(c.WriteDeadlines, t)
	return nil
}

func (c *Conn) NextWriter(int) (io.WriteCloser, error) {
	if hit(&c.FailNextWriter) {
		return nil, errInjected
	}
	if c.closed || c.closeSent {
		return nil, ErrCloseSent
	}
	return &wr{c: c}, nil
}

func (c *Conn) Close() error {
	c.CloseCalls++
	if !c.closed {
		c.closed = true
		close(c.closedCh)
	}
	if hit(&c.FailClose) {
		return errInjected
	}
	return nil
}

func (c *Conn) Closed() bool { return c.closed }

func (c *Conn) SetReadDeadline(t time.Time) error {
	if hit(&c.FailDeadline) {
		return errInjected
	}
	c.Deadlines = append(c.Deadlines, t)
	return nil
}

func (c *Conn) SetReadLimit(limit int64) { c.limit = limit }
func (c *Conn) LocalAddr() net.Addr      { return nil }
func (c *Conn) RemoteAddr() net.Addr     { return nil }

// Package fakews stands in for gorilla/websocket in the wsStream model.
package fakews

import (
	"io"
	"net"
	"time"
)

const BinaryMessage = 2
const TextMessage = 1

type CloseError struct{ Code int }

func (e *CloseError) Error() string { return "close" }

type Conn struct {
	In  [][]byte // scripted incoming messages
	Out [][]byte
}

type rd struct{ b []byte }

func (r *rd) Read(p []byte) (int, error) {
	if len(r.b) == 0 {
		return 0, io.EOF
	}
	n := copy(p, r.b)
	r.b = r.b[n:]
	return n, nil
}

func (c *Conn) NextReader() (int, io.Reader, error) {
	if len(c.In) == 0 {
		return 0, nil, &CloseError{1000}
	}
	m := c.In[0]
	c.In = c.In[1:]
	return BinaryMessage, &rd{m}, nil
}

type wr struct {
	c *Conn
	b []byte
}

func (w *wr) Write(p []byte) (int, error) { w.b = append(w.b, p...); return len(p), nil }
func (w *wr) Close() error                { w.c.Out = append(w.c.Out, w.b); return nil }

func (c *Conn) NextWriter(int) (io.WriteCloser, error) { return &wr{c: c}, nil }
func (c *Conn) Close() error                           { return nil }
func (c *Conn) SetReadDeadline(time.Time) error        { return nil }
func (c *Conn) LocalAddr() net.Addr                    { return nil }
func (c *Conn) RemoteAddr() net.Addr                   { return nil }

// Package fakews stands in for github.com/gorilla/websocket in the model of
// transport.wsStream: a scripted message-oriented connection that reproduces
// gorilla's documented reader contract (a message reader returns n>0,nil ...
// then 0,io.EOF; NextReader fails with *CloseError once the peer closed;
// a message above the read limit fails with ErrReadLimit) and records written
// messages. It is rewritten onto the controlled scheduler like harness code.
package fakews

import (
	"errors"
	"io"
	"net"
	"time"
)

const BinaryMessage = 2
const TextMessage = 1

var ErrReadLimit = errors.New("websocket: read limit exceeded")
var ErrCloseSent = errors.New("websocket: close sent")
var errInjected = errors.New("fakews: injected failure")
var errTimeout = errors.New("fakews: i/o timeout")

type CloseError struct{ Code int }

func (e *CloseError) Error() string { return "websocket: close" }

// Msg is one incoming websocket message.
type Msg struct {
	Type int
	Data []byte
}

type Conn struct {
	in       chan Msg // scripted incoming messages
	Out      [][]byte // messages written by the code under test
	closed   bool
	closedCh chan struct{}
	expired  chan struct{}
	isExpired bool
	limit    int64
	MaxRead  int // a message reader hands out at most this many bytes per Read (0 = as much as fits)

	Deadlines  []time.Time
	CloseCalls int
	// fault switches: fail the n-th call from now (1 = next)
	FailNextWriter int
	FailWrite      int
	FailWriterClose int
	FailNextReader int
	FailDeadline   int
	FailClose      int
}

func New(capacity int) *Conn {
	return &Conn{in: make(chan Msg, capacity), closedCh: make(chan struct{}), expired: make(chan struct{})}
}

// Feed queues an incoming binary message.
func (c *Conn) Feed(data []byte) { c.in <- Msg{BinaryMessage, append([]byte{}, data...)} }

// FeedMsg queues an incoming message of any type.
func (c *Conn) FeedMsg(m Msg) { c.in <- m }

// PeerClose: the peer sends a close frame after what is queued.
func (c *Conn) PeerClose() { c.in <- Msg{Type: -1} }

// ExpireReadDeadline lets a blocked NextReader fail with a timeout.
func (c *Conn) ExpireReadDeadline() {
	if !c.isExpired {
		c.isExpired = true
		close(c.expired)
	}
}

func hit(n *int) bool {
	if *n > 0 {
		*n--
		if *n == 0 {
			return true
		}
	}
	return false
}

type rd struct {
	c *Conn
	b []byte
}

func (r *rd) Read(p []byte) (int, error) {
	if len(r.b) == 0 {
		return 0, io.EOF
	}
	n := len(p)
	if r.c.MaxRead > 0 && n > r.c.MaxRead {
		n = r.c.MaxRead
	}
	n = copy(p[:n], r.b)
	r.b = r.b[n:]
	return n, nil
}

func (c *Conn) NextReader() (int, io.Reader, error) {
	if hit(&c.FailNextReader) {
		return 0, nil, errInjected
	}
	if c.closed {
		return 0, nil, errors.New("use of closed network connection")
	}
	var m Msg
	select {
	case m = <-c.in:
	default:
		select {
		case m = <-c.in:
		case <-c.closedCh:
			return 0, nil, errors.New("use of closed network connection")
		case <-c.expired:
			return 0, nil, errTimeout
		}
	}
	if m.Type == -1 {
		return 0, nil, &CloseError{1000}
	}
	if c.limit > 0 && int64(len(m.Data)) > c.limit {
		return 0, nil, ErrReadLimit
	}
	return m.Type, &rd{c, m.Data}, nil
}

type wr struct {
	c *Conn
	b []byte
}

func (w *wr) Write(p []byte) (int, error) {
	if hit(&w.c.FailWrite) {
		return 0, errInjected
	}
	w.b = append(w.b, p...)
	return len(p), nil
}

func (w *wr) Close() error {
	if hit(&w.c.FailWriterClose) {
		return errInjected
	}
	if w.c.closed {
		return ErrCloseSent
	}
	w.c.Out = append(w.c.Out, w.b)
	return nil
}

func (c *Conn) NextWriter(int) (io.WriteCloser, error) {
	if hit(&c.FailNextWriter) {
		return nil, errInjected
	}
	if c.closed {
		return nil, ErrCloseSent
	}
	return &wr{c: c}, nil
}

func (c *Conn) Close() error {
	c.CloseCalls++
	if !c.closed {
		c.closed = true
		close(c.closedCh)
	}
	if hit(&c.FailClose) {
		return errInjected
	}
	return nil
}

func (c *Conn) Closed() bool { return c.closed }

func (c *Conn) SetReadDeadline(t time.Time) error {
	if hit(&c.FailDeadline) {
		return errInjected
	}
	c.Deadlines = append(c.Deadlines, t)
	return nil
}

func (c *Conn) SetReadLimit(limit int64) { c.limit = limit }
func (c *Conn) LocalAddr() net.Addr      { return nil }
func (c *Conn) RemoteAddr() net.Addr     { return nil }

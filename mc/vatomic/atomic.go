// Package vatomic shadows sync/atomic: every access is a scheduling point.
package vatomic

import "verif/vrt"

func LoadUint32(p *uint32) uint32          { vrt.Yield(nil, "atomic.Load"); return *p }
func StoreUint32(p *uint32, v uint32)      { vrt.Yield(nil, "atomic.Store"); *p = v }
func AddUint32(p *uint32, d uint32) uint32 { vrt.Yield(nil, "atomic.Add"); *p += d; return *p }
func LoadInt32(p *int32) int32             { vrt.Yield(nil, "atomic.Load"); return *p }
func StoreInt32(p *int32, v int32)         { vrt.Yield(nil, "atomic.Store"); *p = v }
func AddInt32(p *int32, d int32) int32     { vrt.Yield(nil, "atomic.Add"); *p += d; return *p }
func LoadInt64(p *int64) int64             { vrt.Yield(nil, "atomic.Load"); return *p }
func StoreInt64(p *int64, v int64)         { vrt.Yield(nil, "atomic.Store"); *p = v }
func AddInt64(p *int64, d int64) int64     { vrt.Yield(nil, "atomic.Add"); *p += d; return *p }
func LoadUint64(p *uint64) uint64          { vrt.Yield(nil, "atomic.Load"); return *p }
func StoreUint64(p *uint64, v uint64)      { vrt.Yield(nil, "atomic.Store"); *p = v }
func AddUint64(p *uint64, d uint64) uint64 { vrt.Yield(nil, "atomic.Add"); *p += d; return *p }
func CompareAndSwapUint32(p *uint32, o, n uint32) bool {
	vrt.Yield(nil, "atomic.CAS")
	if *p == o {
		*p = n
		return true
	}
	return false
}
func CompareAndSwapInt32(p *int32, o, n int32) bool {
	vrt.Yield(nil, "atomic.CAS")
	if *p == o {
		*p = n
		return true
	}
	return false
}
func CompareAndSwapInt64(p *int64, o, n int64) bool {
	vrt.Yield(nil, "atomic.CAS")
	if *p == o {
		*p = n
		return true
	}
	return false
}

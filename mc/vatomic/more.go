package vatomic

// The rest of sync/atomic's surface (swap, remaining compare-and-swap variants, pointers, Value and the typed
// atomics of Go 1.19), so that a change to the code under test that starts using them still builds and is explored
// with every access as a scheduling point. The tree as it stands uses none of this.

import (
	"unsafe"

	"verif/vrt"
)

func CompareAndSwapUint64(p *uint64, o, n uint64) bool {
	vrt.Yield(nil, "atomic.CAS")
	if *p == o {
		*p = n
		return true
	}
	return false
}
func CompareAndSwapUintptr(p *uintptr, o, n uintptr) bool {
	vrt.Yield(nil, "atomic.CAS")
	if *p == o {
		*p = n
		return true
	}
	return false
}
func CompareAndSwapPointer(p *unsafe.Pointer, o, n unsafe.Pointer) bool {
	vrt.Yield(nil, "atomic.CAS")
	if *p == o {
		*p = n
		return true
	}
	return false
}
func SwapInt32(p *int32, n int32) int32       { vrt.Yield(nil, "atomic.Swap"); o := *p; *p = n; return o }
func SwapInt64(p *int64, n int64) int64       { vrt.Yield(nil, "atomic.Swap"); o := *p; *p = n; return o }
func SwapUint32(p *uint32, n uint32) uint32   { vrt.Yield(nil, "atomic.Swap"); o := *p; *p = n; return o }
func SwapUint64(p *uint64, n uint64) uint64   { vrt.Yield(nil, "atomic.Swap"); o := *p; *p = n; return o }
func SwapUintptr(p *uintptr, n uintptr) uintptr { vrt.Yield(nil, "atomic.Swap"); o := *p; *p = n; return o }
func SwapPointer(p *unsafe.Pointer, n unsafe.Pointer) unsafe.Pointer {
	vrt.Yield(nil, "atomic.Swap")
	o := *p
	*p = n
	return o
}
func LoadUintptr(p *uintptr) uintptr              { vrt.Yield(nil, "atomic.Load"); return *p }
func StoreUintptr(p *uintptr, v uintptr)          { vrt.Yield(nil, "atomic.Store"); *p = v }
func AddUintptr(p *uintptr, d uintptr) uintptr    { vrt.Yield(nil, "atomic.Add"); *p += d; return *p }
func LoadPointer(p *unsafe.Pointer) unsafe.Pointer { vrt.Yield(nil, "atomic.Load"); return *p }
func StorePointer(p *unsafe.Pointer, v unsafe.Pointer) { vrt.Yield(nil, "atomic.Store"); *p = v }

// Value as in sync/atomic (the consistent-type rule is not enforced).
type Value struct{ v interface{} }

func (x *Value) Load() interface{}   { vrt.Yield(nil, "atomic.Load"); return x.v }
func (x *Value) Store(v interface{}) { vrt.Yield(nil, "atomic.Store"); x.v = v }
func (x *Value) Swap(n interface{}) interface{} {
	vrt.Yield(nil, "atomic.Swap")
	o := x.v
	x.v = n
	return o
}
func (x *Value) CompareAndSwap(o, n interface{}) bool {
	vrt.Yield(nil, "atomic.CAS")
	if x.v == o {
		x.v = n
		return true
	}
	return false
}

type Bool struct{ v bool }

func (x *Bool) Load() bool   { vrt.Yield(nil, "atomic.Load"); return x.v }
func (x *Bool) Store(v bool) { vrt.Yield(nil, "atomic.Store"); x.v = v }
func (x *Bool) Swap(n bool) bool {
	vrt.Yield(nil, "atomic.Swap")
	o := x.v
	x.v = n
	return o
}
func (x *Bool) CompareAndSwap(o, n bool) bool {
	vrt.Yield(nil, "atomic.CAS")
	if x.v == o {
		x.v = n
		return true
	}
	return false
}

type Int32 struct{ v int32 }

func (x *Int32) Load() int32         { return LoadInt32(&x.v) }
func (x *Int32) Store(v int32)       { StoreInt32(&x.v, v) }
func (x *Int32) Add(d int32) int32   { return AddInt32(&x.v, d) }
func (x *Int32) Swap(n int32) int32  { return SwapInt32(&x.v, n) }
func (x *Int32) CompareAndSwap(o, n int32) bool { return CompareAndSwapInt32(&x.v, o, n) }

type Int64 struct{ v int64 }

func (x *Int64) Load() int64         { return LoadInt64(&x.v) }
func (x *Int64) Store(v int64)       { StoreInt64(&x.v, v) }
func (x *Int64) Add(d int64) int64   { return AddInt64(&x.v, d) }
func (x *Int64) Swap(n int64) int64  { return SwapInt64(&x.v, n) }
func (x *Int64) CompareAndSwap(o, n int64) bool { return CompareAndSwapInt64(&x.v, o, n) }

type Uint32 struct{ v uint32 }

func (x *Uint32) Load() uint32          { return LoadUint32(&x.v) }
func (x *Uint32) Store(v uint32)        { StoreUint32(&x.v, v) }
func (x *Uint32) Add(d uint32) uint32   { return AddUint32(&x.v, d) }
func (x *Uint32) Swap(n uint32) uint32  { return SwapUint32(&x.v, n) }
func (x *Uint32) CompareAndSwap(o, n uint32) bool { return CompareAndSwapUint32(&x.v, o, n) }

type Uint64 struct{ v uint64 }

func (x *Uint64) Load() uint64          { return LoadUint64(&x.v) }
func (x *Uint64) Store(v uint64)        { StoreUint64(&x.v, v) }
func (x *Uint64) Add(d uint64) uint64   { return AddUint64(&x.v, d) }
func (x *Uint64) Swap(n uint64) uint64  { return SwapUint64(&x.v, n) }
func (x *Uint64) CompareAndSwap(o, n uint64) bool { return CompareAndSwapUint64(&x.v, o, n) }

type Pointer[T any] struct{ p *T }

func (x *Pointer[T]) Load() *T   { vrt.Yield(nil, "atomic.Load"); return x.p }
func (x *Pointer[T]) Store(v *T) { vrt.Yield(nil, "atomic.Store"); x.p = v }
func (x *Pointer[T]) Swap(n *T) *T {
	vrt.Yield(nil, "atomic.Swap")
	o := x.p
	x.p = n
	return o
}
func (x *Pointer[T]) CompareAndSwap(o, n *T) bool {
	vrt.Yield(nil, "atomic.CAS")
	if x.p == o {
		x.p = n
		return true
	}
	return false
}

// mc is the single binary behind /verif/check: it runs one property's check,
// serves as exploration worker (-worker) and replays recorded violations.
package main

import (
	"encoding/json"
	"fmt"
	"os"
	"sort"
	"strings"
	"time"

	"verif/explore"
	_ "verif/h/all"
	"verif/report"
)

func main() {
	if len(os.Args) >= 2 && os.Args[1] == "-worker" {
		explore.WorkerMain()
		return
	}
	if len(os.Args) >= 3 && os.Args[1] == "--replay" {
		os.Exit(replay(os.Args[2]))
	}
	if len(os.Args) < 2 {
		var ids []string
		for id := range report.Checks {
			ids = append(ids, id)
		}
		sort.Strings(ids)
		fmt.Println("usage: mc <property> [quick|thorough] | mc --replay <file>\nproperties:", strings.Join(ids, " "))
		os.Exit(2)
	}
	id := os.Args[1]
	tier := os.Getenv("VERIF_TIER")
	if len(os.Args) >= 3 {
		tier = os.Args[2]
	}
	if tier != "thorough" {
		tier = "quick"
	}
	c, ok := report.Checks[id]
	if !ok {
		fmt.Fprintln(os.Stderr, "unknown property", id)
		os.Exit(2)
	}
	budget := c.QuickBudget
	if tier == "thorough" {
		budget = c.ThoroughBudget
	}
	r := report.New(id, tier, c.Level, budget)
	c.Run(r)
	os.Exit(r.Finish())
}

func replay(path string) int {
	b, err := os.ReadFile(path)
	if err != nil {
		fmt.Fprintln(os.Stderr, err)
		return 2
	}
	var rec struct {
		Property  string            `json:"property"`
		Violation explore.Violation `json:"violation"`
	}
	if err := json.Unmarshal(b, &rec); err != nil {
		fmt.Fprintln(os.Stderr, err)
		return 2
	}
	v := rec.Violation
	fmt.Printf("replaying property=%s harness=%s params=%s choices=%v\n", rec.Property, v.Harness, v.Params, v.Choices)
	t0 := time.Now()
	x, res, err := explore.Replay(v)
	if err != nil {
		fmt.Fprintln(os.Stderr, "ENGINE ERROR:", err)
		return 2
	}
	fmt.Println("--- event log")
	for _, l := range x.Log() {
		fmt.Println(l)
	}
	if os.Getenv("VERIF_TRACE") != "" {
		fmt.Println("--- scheduler trace")
		for _, l := range res.Log {
			fmt.Println(l)
		}
	}
	if res.Panic != "" {
		fmt.Println("--- panic\n" + res.Panic)
	}
	if res.Deadlock {
		fmt.Println("--- deadlock:", strings.Join(res.Blocked, ", "))
	}
	vs := x.Violations()
	fmt.Printf("--- %d violation(s) reproduced (two identical runs, %.2fs)\n", len(vs), time.Since(t0).Seconds())
	for _, w := range vs {
		fmt.Printf("clause=%s signature=%q\n%s\n", w.Clause, w.Sig, w.Msg)
	}
	if len(vs) > 0 || res.Panic != "" || res.Deadlock {
		return 1
	}
	return 0
}

// mc is the single binary behind /verif/check: it runs one property's check,
// serves as exploration worker (-worker) and replays recorded violations.
package main

import (
	"encoding/json"
	"fmt"
	"os"
	"os/exec"
	"path/filepath"
	"sort"
	"strings"
	"time"

	"verif/selftest/corpus"

	"verif/explore"
	_ "verif/h/all"
	"verif/report"
)

func main() {
	if len(os.Args) >= 2 && os.Args[1] == "-worker" {
		explore.WorkerMain()
		return
	}
	if len(os.Args) >= 3 && os.Args[1] == "--replay" {
		os.Exit(replay(os.Args[2]))
	}
	if len(os.Args) >= 2 && os.Args[1] == "--engine-selftest" {
		os.Exit(engineSelftest())
	}
	if len(os.Args) < 2 {
		var ids []string
		for id := range report.Checks {
			ids = append(ids, id)
		}
		sort.Strings(ids)
		fmt.Println("usage: mc <property> [quick|thorough] | mc --replay <file>\nproperties:", strings.Join(ids, " "))
		os.Exit(2)
	}
	id := os.Args[1]
	tier := os.Getenv("VERIF_TIER")
	if len(os.Args) >= 3 {
		tier = os.Args[2]
	}
	if tier != "thorough" {
		tier = "quick"
	}
	c, ok := report.Checks[id]
	if !ok {
		fmt.Fprintln(os.Stderr, "unknown property", id)
		os.Exit(2)
	}
	budget := c.QuickBudget
	if tier == "thorough" {
		budget = c.ThoroughBudget
	}
	if m, err := time.ParseDuration(os.Getenv("VERIF_BUDGET")); err == nil && m > 0 {
		budget = m // development aid (a shortened thorough pass); registered commands never set it
	}
	r := report.New(id, tier, c.Level, budget)
	c.Run(r)
	os.Exit(r.Finish())
}

func replay(path string) int {
	b, err := os.ReadFile(path)
	if err != nil {
		fmt.Fprintln(os.Stderr, err)
		return 2
	}
	var rec struct {
		Property  string            `json:"property"`
		Violation explore.Violation `json:"violation"`
	}
	if err := json.Unmarshal(b, &rec); err != nil {
		fmt.Fprintln(os.Stderr, err)
		return 2
	}
	v := rec.Violation
	fmt.Printf("replaying property=%s harness=%s params=%s choices=%v\n", rec.Property, v.Harness, v.Params, v.Choices)
	t0 := time.Now()
	x, res, err := explore.Replay(v)
	if err != nil {
		fmt.Fprintln(os.Stderr, "ENGINE ERROR:", err)
		return 2
	}
	fmt.Println("--- event log")
	for _, l := range x.Log() {
		fmt.Println(l)
	}
	if os.Getenv("VERIF_TRACE") != "" {
		fmt.Println("--- scheduler trace")
		for _, l := range res.Log {
			fmt.Println(l)
		}
	}
	if res.Panic != "" {
		fmt.Println("--- panic\n" + res.Panic)
	}
	if res.Deadlock {
		fmt.Println("--- deadlock:", strings.Join(res.Blocked, ", "))
	}
	vs := x.Violations()
	fmt.Printf("--- %d violation(s) reproduced (two identical runs, %.2fs)\n", len(vs), time.Since(t0).Seconds())
	for _, w := range vs {
		fmt.Printf("clause=%s signature=%q\n%s\n", w.Clause, w.Sig, w.Msg)
	}
	if len(vs) > 0 || res.Panic != "" || res.Deadlock {
		return 1
	}
	return 0
}

// engineSelftest: the conformance corpus (DESIGN 2.11). Every program is explored exhaustively under the
// controlled scheduler (the bound exceeds the number of choice points) and its outcome set must equal the
// expected set; then the natively compiled corpus is run 2000 times per program and every outcome seen
// natively must be in the explored set.
func engineSelftest() int {
	bad := 0
	explored := map[string]map[string]bool{}
	for i, p := range corpus.Progs {
		bound := 64
		if p.Bound > 0 {
			bound = p.Bound
		}
		st := explore.Explore(explore.Config{Harness: "selftest.prog", Params: fmt.Sprint(i), Bound: bound, FreeSwitch: true, MaxSteps: 5000})
		got := map[string]bool{}
		for o := range st.Outcomes {
			o = strings.TrimSpace(o)
			if strings.HasPrefix(o, "PANIC ") {
				if j := strings.Index(o, ": "); j >= 0 {
					o = "PANIC " + o[j+2:]
				}
			}
			if strings.HasPrefix(o, "DEADLOCK") {
				o = "DEADLOCK"
			}
			got[o] = true
		}
		explored[p.Name] = got
		want := map[string]bool{}
		for _, w := range p.Want {
			want[w] = true
		}
		ok := len(got) == len(want) && st.Complete
		for w := range want {
			if !got[w] {
				ok = false
			}
		}
		status := "ok"
		if !ok {
			status = "MISMATCH"
			bad++
		}
		fmt.Printf("%-32s %-8s execs=%-6d explored=%v expected=%v\n", p.Name, status, st.Execs, keys(got), p.Want)
	}
	exe, _ := os.Executable()
	out, err := exec.Command(filepath.Join(filepath.Dir(exe), "selftest-native")).Output()
	if err != nil {
		fmt.Println("ENGINE ERROR: native corpus run failed:", err)
		return 2
	}
	var native map[string][]string
	if err := json.Unmarshal(out, &native); err != nil {
		fmt.Println("ENGINE ERROR: native corpus output:", err)
		return 2
	}
	for name, outs := range native {
		for _, o := range outs {
			if !explored[name][o] {
				fmt.Printf("%-32s NATIVE OUTCOME NOT EXPLORED: %q (explored %v)\n", name, o, keys(explored[name]))
				bad++
			}
		}
	}
	fmt.Printf("engine self-test: %d programs, %d problems\n", len(corpus.Progs), bad)
	if bad > 0 {
		return 2
	}
	return 0
}

func keys(m map[string]bool) []string {
	var k []string
	for s := range m {
		k = append(k, s)
	}
	sort.Strings(k)
	return k
}

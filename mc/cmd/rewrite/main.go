// rewrite: mechanically moves real Go code onto the controlled scheduler.
//   sync, sync/atomic, time  -> shadow packages (import path swap)
//   chan types and operations, select, close, len/cap, range -> vch
//   go statements -> vrt.Go
//   range over maps -> vrt.Keys (iteration order owned by the explorer)
// Output: rewritten files + a go build -overlay JSON.
package main

import (
	"bytes"
	"crypto/sha1"
	"encoding/json"
	"flag"
	"fmt"
	"go/ast"
	"go/printer"
	"go/token"
	"go/types"
	"os"
	"path/filepath"
	"strconv"
	"strings"

	"golang.org/x/tools/go/ast/astutil"
	"golang.org/x/tools/go/packages"
)

var shadow = map[string]string{
	"sync":        "verif/vsync",
	"sync/atomic": "verif/vatomic",
	"time":        "verif/vtime",
}

type rw struct {
	info    *types.Info
	fset    *token.FileSet
	recv2   map[*ast.UnaryExpr]bool
	owned   map[ast.Node]bool // comm statements owned by a select
	lenCap  map[*ast.CallExpr]string
	closes  map[*ast.CallExpr]bool
	makes   map[*ast.CallExpr]bool
	rngChan map[*ast.RangeStmt]bool
	rngMap  map[*ast.RangeStmt]bool
	consts  map[ast.Expr]bool
	mapSet  map[*ast.AssignStmt][]ast.Expr
	n       int
	usedVch bool
	usedVrt bool
	errs    []string
	harness bool // file of a verif/ harness package: map iteration stays native (harness code must be order-insensitive by itself)
}

func isChan(t types.Type) bool {
	if t == nil {
		return false
	}
	_, ok := t.Underlying().(*types.Chan)
	return ok
}

func isMap(t types.Type) bool {
	if t == nil {
		return false
	}
	_, ok := t.Underlying().(*types.Map)
	return ok
}

func (r *rw) isBuiltin(e ast.Expr, name string) bool {
	id, ok := e.(*ast.Ident)
	if !ok || id.Name != name {
		return false
	}
	_, ok = r.info.Uses[id].(*types.Builtin)
	return ok
}

func sel(pkg, name string) ast.Expr { return &ast.SelectorExpr{X: ast.NewIdent(pkg), Sel: ast.NewIdent(name)} }

func call(fun ast.Expr, args ...ast.Expr) *ast.CallExpr { return &ast.CallExpr{Fun: fun, Args: args} }

func method(x ast.Expr, name string, args ...ast.Expr) *ast.CallExpr {
	switch x.(type) {
	case *ast.Ident, *ast.SelectorExpr, *ast.CallExpr, *ast.IndexExpr, *ast.ParenExpr:
	default:
		x = &ast.ParenExpr{X: x}
	}
	return call(&ast.SelectorExpr{X: x, Sel: ast.NewIdent(name)}, args...)
}

func (r *rw) fresh(p string) *ast.Ident {
	r.n++
	return ast.NewIdent(fmt.Sprintf("__%s%d", p, r.n))
}

func (r *rw) pre(c *astutil.Cursor) bool {
	switch n := c.Node().(type) {
	case *ast.AssignStmt:
		for _, l := range n.Lhs {
			if ix, ok := l.(*ast.IndexExpr); ok {
				if mt, ok := r.info.TypeOf(ix.X).Underlying().(*types.Map); ok && !r.harness {
					switch mt.Key().Underlying().(type) {
					case *types.Pointer, *types.Interface, *types.Chan:
						r.mapSet[n] = append(r.mapSet[n], ix.Index)
					}
				}
			}
		}
		if len(n.Lhs) == 2 && len(n.Rhs) == 1 {
			if u, ok := ast.Unparen(n.Rhs[0]).(*ast.UnaryExpr); ok && u.Op == token.ARROW {
				r.recv2[u] = true
			}
		}
	case *ast.ValueSpec:
		if len(n.Names) == 2 && len(n.Values) == 1 {
			if u, ok := ast.Unparen(n.Values[0]).(*ast.UnaryExpr); ok && u.Op == token.ARROW {
				r.recv2[u] = true
			}
		}
	case *ast.CallExpr:
		if len(n.Args) >= 1 {
			switch {
			case r.isBuiltin(n.Fun, "len") && isChan(r.info.TypeOf(n.Args[0])):
				r.lenCap[n] = "Len"
			case r.isBuiltin(n.Fun, "cap") && isChan(r.info.TypeOf(n.Args[0])):
				r.lenCap[n] = "Cap"
			case r.isBuiltin(n.Fun, "close"):
				r.closes[n] = true
			case r.isBuiltin(n.Fun, "make"):
				if _, ok := n.Args[0].(*ast.ChanType); ok {
					r.makes[n] = true
				} else if isChan(r.info.TypeOf(n.Args[0])) {
					r.errs = append(r.errs, fmt.Sprintf("%s: make of named channel type unsupported", r.fset.Position(n.Pos())))
				}
			}
		}
		for _, a := range n.Args {
			if tv, ok := r.info.Types[a]; ok && tv.Value != nil {
				r.consts[a] = true
			}
		}
	case *ast.RangeStmt:
		t := r.info.TypeOf(n.X)
		if isChan(t) {
			r.rngChan[n] = true
		} else if isMap(t) && !r.harness {
			r.rngMap[n] = true
		}
	case *ast.SelectStmt:
		for _, cc := range n.Body.List {
			comm := cc.(*ast.CommClause).Comm
			switch s := comm.(type) {
			case *ast.SendStmt:
				r.owned[s] = true
			case *ast.ExprStmt:
				r.owned[ast.Unparen(s.X)] = true
			case *ast.AssignStmt:
				r.owned[ast.Unparen(s.Rhs[0])] = true
			}
		}
	case *ast.LabeledStmt:
		if _, ok := n.Stmt.(*ast.SelectStmt); ok {
			r.errs = append(r.errs, fmt.Sprintf("%s: labeled select unsupported", r.fset.Position(n.Pos())))
		}
	}
	return true
}

func (r *rw) post(c *astutil.Cursor) bool {
	switch n := c.Node().(type) {
	case *ast.ChanType:
		r.usedVch = true
		c.Replace(&ast.StarExpr{X: &ast.IndexExpr{X: sel("vch", "Chan"), Index: n.Value}})
	case *ast.UnaryExpr:
		if n.Op == token.ARROW && !r.owned[n] {
			if r.recv2[n] {
				c.Replace(method(n.X, "Recv2"))
			} else {
				c.Replace(method(n.X, "Recv"))
			}
		}
	case *ast.SendStmt:
		if !r.owned[n] {
			c.Replace(&ast.ExprStmt{X: method(n.Chan, "Send", n.Value)})
		}
	case *ast.CallExpr:
		if m, ok := r.lenCap[n]; ok {
			c.Replace(method(n.Args[0], m))
		} else if r.closes[n] {
			c.Replace(method(n.Args[0], "Close"))
		} else if r.makes[n] {
			r.usedVch = true
			elem := n.Args[0].(*ast.StarExpr).X.(*ast.IndexExpr).Index
			c.Replace(call(&ast.IndexExpr{X: sel("vch", "Make"), Index: elem}, n.Args[1:]...))
		}
	case *ast.AssignStmt:
		if ks, ok := r.mapSet[n]; ok {
			r.usedVrt = true
			var list []ast.Stmt
			for _, k := range ks {
				list = append(list, &ast.ExprStmt{X: call(sel("vrt", "NoteKey"), k)})
			}
			c.Replace(&ast.BlockStmt{List: append(list, n)})
		}
	case *ast.GoStmt:
		r.usedVrt = true
		c.Replace(r.goStmt(n))
	case *ast.SelectStmt:
		r.usedVch = true
		c.Replace(r.selectStmt(n))
	case *ast.RangeStmt:
		if r.rngChan[n] {
			c.Replace(r.rangeChan(n))
		} else if r.rngMap[n] {
			r.usedVrt = true
			r.rangeMap(n)
		}
	}
	return true
}

func (r *rw) goStmt(g *ast.GoStmt) ast.Stmt {
	cl := g.Call
	if fl, ok := cl.Fun.(*ast.FuncLit); ok && len(cl.Args) == 0 && fl.Type.Results == nil {
		return &ast.ExprStmt{X: call(sel("vrt", "Go"), fl)}
	}
	var pre []ast.Stmt
	f := r.fresh("f")
	pre = append(pre, &ast.AssignStmt{Lhs: []ast.Expr{f}, Tok: token.DEFINE, Rhs: []ast.Expr{cl.Fun}})
	var args []ast.Expr
	for _, a := range cl.Args {
		if r.consts[a] {
			args = append(args, a)
			continue
		}
		v := r.fresh("a")
		pre = append(pre, &ast.AssignStmt{Lhs: []ast.Expr{v}, Tok: token.DEFINE, Rhs: []ast.Expr{a}})
		args = append(args, v)
	}
	inner := &ast.CallExpr{Fun: f, Args: args, Ellipsis: cl.Ellipsis}
	if cl.Ellipsis != token.NoPos {
		inner.Ellipsis = 1
	}
	lit := &ast.FuncLit{Type: &ast.FuncType{Params: &ast.FieldList{}}, Body: &ast.BlockStmt{List: []ast.Stmt{&ast.ExprStmt{X: inner}}}}
	pre = append(pre, &ast.ExprStmt{X: call(sel("vrt", "Go"), lit)})
	return &ast.BlockStmt{List: pre}
}

func (r *rw) selectStmt(s *ast.SelectStmt) ast.Stmt {
	var pre []ast.Stmt
	var caseVars []ast.Expr
	var clauses []ast.Stmt
	hasDefault := "false"
	idx := 0
	for _, st := range s.Body.List {
		cc := st.(*ast.CommClause)
		if cc.Comm == nil {
			hasDefault = "true"
			clauses = append(clauses, &ast.CaseClause{List: []ast.Expr{&ast.UnaryExpr{Op: token.SUB, X: &ast.BasicLit{Kind: token.INT, Value: "1"}}}, Body: cc.Body})
			continue
		}
		v := r.fresh("c")
		var mk ast.Expr
		var bind []ast.Stmt
		switch cm := cc.Comm.(type) {
		case *ast.SendStmt:
			mk = method(cm.Chan, "SendCase", cm.Value)
		case *ast.ExprStmt:
			u := ast.Unparen(cm.X).(*ast.UnaryExpr)
			mk = method(u.X, "RecvCase")
		case *ast.AssignStmt:
			u := ast.Unparen(cm.Rhs[0]).(*ast.UnaryExpr)
			mk = method(u.X, "RecvCase")
			rhs := []ast.Expr{&ast.SelectorExpr{X: v, Sel: ast.NewIdent("Val")}}
			if len(cm.Lhs) == 2 {
				rhs = append(rhs, &ast.SelectorExpr{X: v, Sel: ast.NewIdent("Ok")})
			}
			bind = append(bind, &ast.AssignStmt{Lhs: cm.Lhs, Tok: cm.Tok, Rhs: rhs})
		}
		pre = append(pre, &ast.AssignStmt{Lhs: []ast.Expr{v}, Tok: token.DEFINE, Rhs: []ast.Expr{mk}})
		caseVars = append(caseVars, v)
		clauses = append(clauses, &ast.CaseClause{List: []ast.Expr{&ast.BasicLit{Kind: token.INT, Value: strconv.Itoa(idx)}}, Body: append(bind, cc.Body...)})
		idx++
	}
	clauses = append(clauses, &ast.CaseClause{Body: []ast.Stmt{&ast.ExprStmt{X: call(ast.NewIdent("panic"), &ast.BasicLit{Kind: token.STRING, Value: `"vch: bad select index"`})}}})
	args := append([]ast.Expr{ast.NewIdent(hasDefault)}, caseVars...)
	sw := &ast.SwitchStmt{Tag: call(sel("vch", "Select"), args...), Body: &ast.BlockStmt{List: clauses}}
	return &ast.BlockStmt{List: append(pre, sw)}
}

func (r *rw) rangeChan(n *ast.RangeStmt) ast.Stmt {
	ok := r.fresh("ok")
	var key ast.Expr = ast.NewIdent("_")
	tok := token.DEFINE
	if n.Key != nil {
		key = n.Key
		if n.Tok == token.ASSIGN {
			// declare ok separately
			tok = token.ASSIGN
		}
	}
	recv := method(n.X, "Recv2")
	if tok == token.ASSIGN {
		return &ast.BlockStmt{List: []ast.Stmt{
			&ast.DeclStmt{Decl: &ast.GenDecl{Tok: token.VAR, Specs: []ast.Spec{&ast.ValueSpec{Names: []*ast.Ident{ok}, Type: ast.NewIdent("bool")}}}},
			&ast.ForStmt{
				Init: &ast.AssignStmt{Lhs: []ast.Expr{key, ok}, Tok: token.ASSIGN, Rhs: []ast.Expr{recv}},
				Cond: ok,
				Post: &ast.AssignStmt{Lhs: []ast.Expr{key, ok}, Tok: token.ASSIGN, Rhs: []ast.Expr{method(n.X, "Recv2")}},
				Body: n.Body,
			}}}
	}
	return &ast.ForStmt{
		Init: &ast.AssignStmt{Lhs: []ast.Expr{key, ok}, Tok: token.DEFINE, Rhs: []ast.Expr{recv}},
		Cond: ok,
		Post: &ast.AssignStmt{Lhs: []ast.Expr{key, ok}, Tok: token.ASSIGN, Rhs: []ast.Expr{method(n.X, "Recv2")}},
		Body: n.Body,
	}
}

func isBlank(e ast.Expr) bool {
	id, ok := e.(*ast.Ident)
	return e == nil || (ok && id.Name == "_")
}

// rangeMap rewrites in place: for k, v := range m  =>
//   __m := m; for _, k := range vrt.Keys(__m) { v, __ok := __m[k]; if !__ok { continue }; ... }
// (m is evaluated once by Keys; we re-index the original expression only if it is an identifier/selector)
func (r *rw) rangeMap(n *ast.RangeStmt) {
	m := n.X
	var head []ast.Stmt
	k := n.Key
	kdef := n.Tok
	var kk ast.Expr
	if isBlank(k) || n.Tok == token.ASSIGN {
		kk = r.fresh("k")
	} else {
		kk = k
	}
	okv := r.fresh("ok")
	var vv ast.Expr = ast.NewIdent("_")
	if !isBlank(n.Value) {
		if n.Tok == token.ASSIGN {
			vv = r.fresh("v")
		} else {
			vv = n.Value
		}
	}
	head = append(head, &ast.AssignStmt{Lhs: []ast.Expr{vv, okv}, Tok: token.DEFINE, Rhs: []ast.Expr{&ast.IndexExpr{X: m, Index: kk}}})
	head = append(head, &ast.IfStmt{Cond: &ast.UnaryExpr{Op: token.NOT, X: okv}, Body: &ast.BlockStmt{List: []ast.Stmt{&ast.BranchStmt{Tok: token.CONTINUE}}}})
	if n.Tok == token.ASSIGN {
		if !isBlank(k) {
			head = append(head, &ast.AssignStmt{Lhs: []ast.Expr{k}, Tok: token.ASSIGN, Rhs: []ast.Expr{kk}})
		}
		if !isBlank(n.Value) {
			head = append(head, &ast.AssignStmt{Lhs: []ast.Expr{n.Value}, Tok: token.ASSIGN, Rhs: []ast.Expr{vv}})
		}
	}
	_ = kdef
	n.Key = ast.NewIdent("_")
	n.Value = kk
	n.Tok = token.DEFINE
	n.X = call(sel("vrt", "Keys"), m)
	n.Body.List = append(head, n.Body.List...)
}

func main() {
	dir := flag.String("dir", ".", "directory to load packages from")
	out := flag.String("out", "", "output directory")
	flag.Parse()
	cfg := &packages.Config{Mode: packages.NeedName | packages.NeedFiles | packages.NeedSyntax | packages.NeedTypes | packages.NeedTypesInfo | packages.NeedCompiledGoFiles | packages.NeedImports | packages.NeedDeps, Dir: *dir}
	pkgs, err := packages.Load(cfg, flag.Args()...)
	if err != nil {
		fmt.Fprintln(os.Stderr, err)
		os.Exit(2)
	}
	overlay := map[string]string{}
	bad := false
	for _, p := range pkgs {
		for _, e := range p.Errors {
			fmt.Fprintln(os.Stderr, "load error:", e)
			bad = true
		}
		for i, f := range p.Syntax {
			path := p.CompiledGoFiles[i]
			if strings.HasSuffix(path, "tomb.v2@v2.0.0-20161208151619-d5d1b5820637/context.go") {
				op := filepath.Join(*out, "tomb_context_stub.go")
				os.WriteFile(op, []byte("package tomb\n"), 0o644)
				overlay[path] = op
				continue
			}
			r := &rw{info: p.TypesInfo, fset: p.Fset, recv2: map[*ast.UnaryExpr]bool{}, owned: map[ast.Node]bool{}, lenCap: map[*ast.CallExpr]string{}, closes: map[*ast.CallExpr]bool{}, makes: map[*ast.CallExpr]bool{}, rngChan: map[*ast.RangeStmt]bool{}, rngMap: map[*ast.RangeStmt]bool{}, consts: map[ast.Expr]bool{}, mapSet: map[*ast.AssignStmt][]ast.Expr{}, harness: strings.HasPrefix(p.PkgPath, "verif/") && !strings.HasPrefix(p.PkgPath, "verif/selftest/")}
			astutil.Apply(f, r.pre, r.post)
			if len(r.errs) > 0 {
				for _, e := range r.errs {
					fmt.Fprintln(os.Stderr, "rewrite error:", e)
				}
				bad = true
			}
			// imports
			for _, im := range f.Imports {
				ip, _ := strconv.Unquote(im.Path.Value)
				if np, ok := shadow[ip]; ok {
					if im.Name == nil {
						im.Name = ast.NewIdent(filepath.Base(ip))
					}
					im.Path.Value = strconv.Quote(np)
				}
			}
			has := func(path string) bool {
				for _, im := range f.Imports {
					if ip, _ := strconv.Unquote(im.Path.Value); ip == path {
						return true
					}
				}
				return false
			}
			if r.usedVch && !has("verif/vch") {
				astutil.AddNamedImport(p.Fset, f, "vch", "verif/vch")
			}
			if r.usedVrt && !has("verif/vrt") {
				astutil.AddNamedImport(p.Fset, f, "vrt", "verif/vrt")
			}
			// drop comments: positions are stale after rewriting
			f.Comments = nil
			f.Doc = nil
			var buf bytes.Buffer
			if !strings.HasPrefix(p.PkgPath, "verif/") || strings.HasPrefix(p.PkgPath, "verif/selftest/") {
				// lifts the language version of files of the go-1.14 module (generics) while keeping
				// the pre-1.22 per-loop loop-variable semantics the code was written for
				buf.WriteString("//go:build go1.21\n\n")
			}
			if err := printer.Fprint(&buf, token.NewFileSet(), f); err != nil {
				fmt.Fprintln(os.Stderr, err)
				bad = true
			}
			h := sha1.Sum([]byte(path))
			name := fmt.Sprintf("%s_%x.go", strings.TrimSuffix(filepath.Base(path), ".go"), h[:4])
			op := filepath.Join(*out, name)
			if err := os.WriteFile(op, buf.Bytes(), 0o644); err != nil {
				fmt.Fprintln(os.Stderr, err)
				bad = true
			}
			overlay[path] = op
			// virtual package verif/wsx: the websocket connection compiled against verif/fakews
			if p.PkgPath == "github.com/256dpi/gomqtt/transport" {
				base := filepath.Base(path)
				if base == "base_conn.go" || base == "websocket_conn.go" {
					txt := strings.Replace(buf.String(), `"github.com/gorilla/websocket"`, `websocket "verif/fakews"`, 1)
					vp := filepath.Join(*out, "wsx_"+base)
					os.WriteFile(vp, []byte(txt), 0o644)
					overlay[filepath.Join(*dir, "wsx", base)] = vp
				}
			}
		}
	}
	stub := filepath.Join(*out, "wsx_stub.go")
	os.WriteFile(stub, []byte("package transport\n"), 0o644)
	overlay[filepath.Join(*dir, "wsx", "stub.go")] = stub
	js, _ := json.MarshalIndent(map[string]interface{}{"Replace": overlay}, "", " ")
	os.WriteFile(filepath.Join(*out, "overlay.json"), js, 0o644)
	if bad {
		os.Exit(1)
	}
}

// mutate enumerates and applies small syntactic changes ("mutants") to one Go
// source file of the repository. It is a development tool of the verification
// effort (tools/mutants.py drives it): a mutant that still compiles and passes
// the repository's own tests is run against the checks to see whether they
// notice it. It never touches /repo itself - the caller gives it a copy.
//
//	mutate -list file.go             one JSON line per mutant {id, line, op, desc}
//	mutate -apply N file.go out.go   writes the N-th mutant of file.go to out.go
package main

import (
	"bytes"
	"encoding/json"
	"fmt"
	"go/ast"
	"go/format"
	"go/parser"
	"go/printer"
	"go/token"
	"os"
	"strconv"
	"strings"
)

type mutant struct {
	ID   int    `json:"id"`
	Line int    `json:"line"`
	Op   string `json:"op"`
	Desc string `json:"desc"`
	Func string `json:"func"`
	do   func()
}

func src(fset *token.FileSet, n ast.Node) string {
	var b bytes.Buffer
	printer.Fprint(&b, fset, n)
	s := strings.Join(strings.Fields(b.String()), " ")
	if len(s) > 90 {
		s = s[:90] + "..."
	}
	return s
}

func isLogCall(fset *token.FileSet, n ast.Node) bool {
	s := src(fset, n)
	return strings.Contains(s, ".Log(") || strings.Contains(s, ".log(") || strings.HasPrefix(s, "println") || strings.Contains(s, "fmt.Sprint")
}

var swap = map[token.Token]token.Token{token.LSS: token.LEQ, token.LEQ: token.LSS, token.GTR: token.GEQ, token.GEQ: token.GTR, token.EQL: token.NEQ, token.NEQ: token.EQL,
	token.LAND: token.LOR, token.LOR: token.LAND, token.ADD: token.SUB, token.SUB: token.ADD}

func collect(fset *token.FileSet, f *ast.File) []*mutant {
	var ms []*mutant
	add := func(pos token.Pos, fn, op, desc string, do func()) {
		ms = append(ms, &mutant{ID: len(ms), Line: fset.Position(pos).Line, Op: op, Desc: desc, Func: fn, do: do})
	}
	for _, d := range f.Decls {
		fd, ok := d.(*ast.FuncDecl)
		if !ok || fd.Body == nil {
			continue
		}
		fn := fd.Name.Name
		if fd.Recv != nil && len(fd.Recv.List) > 0 {
			fn = src(fset, fd.Recv.List[0].Type) + "." + fn
		}
		ast.Inspect(fd.Body, func(n ast.Node) bool {
			switch x := n.(type) {
			case *ast.BlockStmt:
				for i, st := range x.List {
					i, st, blk := i, st, x
					switch s := st.(type) {
					case *ast.ExprStmt, *ast.IncDecStmt, *ast.DeferStmt, *ast.GoStmt, *ast.SendStmt:
						if isLogCall(fset, s) {
							continue
						}
						add(st.Pos(), fn, "del-stmt", "delete: "+src(fset, st), func() { blk.List[i] = &ast.EmptyStmt{} })
					case *ast.AssignStmt:
						if s.Tok == token.DEFINE {
							continue // removing a definition rarely compiles
						}
						add(st.Pos(), fn, "del-stmt", "delete: "+src(fset, st), func() { blk.List[i] = &ast.EmptyStmt{} })
					case *ast.ReturnStmt:
						// an early return inside a nested block: drop it (falls through)
						if blk != fd.Body {
							add(st.Pos(), fn, "del-return", "delete: "+src(fset, st), func() { blk.List[i] = &ast.EmptyStmt{} })
						}
					}
				}
			case *ast.IfStmt:
				if x.Cond != nil {
					c := x
					add(x.Cond.Pos(), fn, "neg-cond", "negate: if "+src(fset, x.Cond), func() { c.Cond = &ast.UnaryExpr{Op: token.NOT, X: &ast.ParenExpr{X: c.Cond}} })
				}
			case *ast.BinaryExpr:
				if to, ok := swap[x.Op]; ok {
					b := x
					add(x.OpPos, fn, "swap-op", fmt.Sprintf("%s -> %s in: %s", x.Op, to, src(fset, x)), func() { b.Op = to })
				}
			case *ast.BasicLit:
				if x.Kind == token.INT && (x.Value == "0" || x.Value == "1") {
					l := x
					to := map[string]string{"0": "1", "1": "0"}[x.Value]
					add(x.Pos(), fn, "lit", fmt.Sprintf("literal %s -> %s", x.Value, to), func() { l.Value = to })
				}
			case *ast.Ident:
				if x.Name == "true" || x.Name == "false" {
					id := x
					to := map[string]string{"true": "false", "false": "true"}[x.Name]
					add(x.Pos(), fn, "bool", fmt.Sprintf("%s -> %s", x.Name, to), func() { id.Name = to })
				}
			}
			return true
		})
	}
	return ms
}

func main() {
	if len(os.Args) < 3 {
		fmt.Fprintln(os.Stderr, "usage: mutate -list file.go | mutate -apply N file.go out.go")
		os.Exit(2)
	}
	file := os.Args[2]
	if os.Args[1] == "-apply" {
		file = os.Args[3]
	}
	fset := token.NewFileSet()
	f, err := parser.ParseFile(fset, file, nil, parser.ParseComments)
	if err != nil {
		fmt.Fprintln(os.Stderr, err)
		os.Exit(2)
	}
	ms := collect(fset, f)
	switch os.Args[1] {
	case "-list":
		for _, m := range ms {
			js, _ := json.Marshal(m)
			fmt.Println(string(js))
		}
	case "-apply":
		n, _ := strconv.Atoi(os.Args[2])
		if n < 0 || n >= len(ms) {
			fmt.Fprintln(os.Stderr, "no such mutant")
			os.Exit(2)
		}
		ms[n].do()
		var b bytes.Buffer
		if err := format.Node(&b, fset, f); err != nil {
			fmt.Fprintln(os.Stderr, err)
			os.Exit(2)
		}
		if err := os.WriteFile(os.Args[4], b.Bytes(), 0644); err != nil {
			fmt.Fprintln(os.Stderr, err)
			os.Exit(2)
		}
	}
}

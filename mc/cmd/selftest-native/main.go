// selftest-native runs every corpus program natively (no rewriting) many times and prints the outcome sets as JSON.
package main

import (
	"encoding/json"
	"fmt"
	"os"
	"runtime"
	"sync"

	"verif/selftest/corpus"
)

func main() {
	runs := 2000
	out := map[string][]string{}
	for _, p := range corpus.Progs {
		if p.NativeSkip {
			continue
		}
		set := map[string]bool{}
		var mu sync.Mutex
		var wg sync.WaitGroup
		for w := 0; w < runtime.NumCPU(); w++ {
			wg.Add(1)
			go func() {
				defer wg.Done()
				for i := 0; i < runs/runtime.NumCPU()+1; i++ {
					r := p.Run()
					mu.Lock()
					set[r] = true
					mu.Unlock()
					if i%7 == 0 {
						runtime.Gosched()
					}
				}
			}()
		}
		wg.Wait()
		for k := range set {
			out[p.Name] = append(out[p.Name], k)
		}
	}
	js, _ := json.Marshal(out)
	fmt.Println(string(js))
	os.Exit(0)
}

// racepass is the non-deciding supplement to the controlled-scheduler checks:
// the cooperative scheduler only switches threads at synchronisation
// operations, so an access that is unsynchronised (or synchronised only by a
// read lock) is invisible to it. This program runs small concurrent programs
// over the same conflict-forced alphabets NATIVELY (no source rewriting) and
// is built with -race: the detector's happens-before analysis reports any pair
// of conflicting accesses not ordered by synchronisation. Usage: racepass <C05|C18|C19>
// Output: one line "RACEPASS programs=<n> runs=<n>"; data race reports go to stderr
// (GORACE=halt_on_error=0 keeps going); the caller counts "WARNING: DATA RACE".
package main

import (
	"errors"
	"fmt"
	"io"
	"os"
	"sync"
	"time"

	"github.com/256dpi/gomqtt/packet"
	"github.com/256dpi/gomqtt/session"
	"github.com/256dpi/gomqtt/topic"
	"github.com/256dpi/gomqtt/transport"
)

// memCarrier is a race-free in-memory transport.Carrier for the native pass.
type memCarrier struct {
	mu     sync.Mutex
	cond   *sync.Cond
	in     []byte
	out    []byte
	closed bool
}

func newMemCarrier() *memCarrier { c := &memCarrier{}; c.cond = sync.NewCond(&c.mu); return c }

func (c *memCarrier) Read(p []byte) (int, error) {
	c.mu.Lock()
	defer c.mu.Unlock()
	for len(c.in) == 0 && !c.closed {
		c.cond.Wait()
	}
	if len(c.in) == 0 {
		return 0, io.EOF
	}
	n := copy(p, c.in)
	c.in = c.in[n:]
	return n, nil
}

func (c *memCarrier) Write(p []byte) (int, error) {
	c.mu.Lock()
	defer c.mu.Unlock()
	if c.closed {
		return 0, errors.New("closed")
	}
	c.out = append(c.out, p...)
	return len(p), nil
}

func (c *memCarrier) Close() error {
	c.mu.Lock()
	c.closed = true
	c.mu.Unlock()
	c.cond.Broadcast()
	return nil
}

func (c *memCarrier) SetReadDeadline(time.Time) error { return nil }

type connSys struct {
	conn *transport.BaseConn
	car  *memCarrier
}

func connSuite() suite {
	k := func(s interface{}) *connSys { return s.(*connSys) }
	pub := func(tag string) packet.Generic {
		p := packet.NewPublish()
		p.Message = packet.Message{Topic: "t", Payload: []byte(tag)}
		return p
	}
	in := pub("incoming")
	inb := make([]byte, in.Len())
	in.Encode(inb)
	return suite{
		fresh: func() interface{} {
			c := newMemCarrier()
			c.in = append(append([]byte{}, inb...), inb...)
			conn := transport.NewBaseConn(c)
			conn.SetMaxWriteDelay(time.Millisecond)
			return &connSys{conn, c}
		},
		ops: []op{
			{"Send(sync)", func(s interface{}) { k(s).conn.Send(pub("a"), false) }},
			{"Send(async)", func(s interface{}) { k(s).conn.Send(pub("b"), true) }},
			{"Send(async)+wait", func(s interface{}) { k(s).conn.Send(pub("c"), true); time.Sleep(3 * time.Millisecond) }},
			{"Receive", func(s interface{}) { k(s).conn.Receive() }},
			{"Close", func(s interface{}) { k(s).conn.Close() }},
			{"SetReadTimeout", func(s interface{}) { k(s).conn.SetReadTimeout(time.Second) }},
			{"SetReadLimit", func(s interface{}) { k(s).conn.SetReadLimit(1000) }},
			{"SetMaxWriteDelay", func(s interface{}) { k(s).conn.SetMaxWriteDelay(2 * time.Millisecond) }},
			{"carrier.Close", func(s interface{}) { k(s).car.Close() }},
		},
	}
}

type op struct {
	name string
	do   func(sys interface{})
}

type suite struct {
	fresh func() interface{}
	ops   []op
}

var sink interface{}
var sinkMu sync.Mutex

func keep(v []interface{}) {
	// read every element of a returned slice (a reader of a result that aliases internal state races with writers)
	n := 0
	for _, e := range v {
		if e != nil {
			n++
		}
	}
	sinkMu.Lock()
	sink = n
	sinkMu.Unlock()
}

func treeSuite() suite {
	t := func(s interface{}) *topic.Tree { return s.(*topic.Tree) }
	return suite{
		fresh: func() interface{} {
			tr := topic.NewStandardTree()
			// several values per node so that slices have spare capacity, several nodes matching the same name
			for v := 1; v <= 3; v++ {
				tr.Add("#", v)
				tr.Add("a", 10+v)
				tr.Add("a/+", 20+v)
			}
			tr.Add("b", 31)
			tr.Add("a/b", 41)
			return tr
		},
		ops: []op{
			{"Add(a,99)", func(s interface{}) { t(s).Add("a", 99) }},
			{"Add(a/+,98)", func(s interface{}) { t(s).Add("a/+", 98) }},
			{"Set(a,97)", func(s interface{}) { t(s).Set("a", 97) }},
			{"Remove(a,11)", func(s interface{}) { t(s).Remove("a", 11) }},
			{"Remove(#,1)", func(s interface{}) { t(s).Remove("#", 1) }},
			{"Empty(a/+)", func(s interface{}) { t(s).Empty("a/+") }},
			{"Clear(2)", func(s interface{}) { t(s).Clear(2) }},
			{"Reset", func(s interface{}) { t(s).Reset() }},
			{"Get(a)", func(s interface{}) { keep(t(s).Get("a")) }},
			{"Get(#)", func(s interface{}) { keep(t(s).Get("#")) }},
			{"Match(a)", func(s interface{}) { keep(t(s).Match("a")) }},
			{"Match(a/b)", func(s interface{}) { keep(t(s).Match("a/b")) }},
			{"Match(b)", func(s interface{}) { keep(t(s).Match("b")) }},
			{"Match(x/y)", func(s interface{}) { keep(t(s).Match("x/y")) }},
			{"MatchFirst(a)", func(s interface{}) { t(s).MatchFirst("a") }},
			{"Search(#)", func(s interface{}) { keep(t(s).Search("#")) }},
			{"Search(a/+)", func(s interface{}) { keep(t(s).Search("a/+")) }},
			{"Search(+)", func(s interface{}) { keep(t(s).Search("+")) }},
			{"SearchFirst(a/#)", func(s interface{}) { t(s).SearchFirst("a/#") }},
			{"All", func(s interface{}) { keep(t(s).All()) }},
			{"Count", func(s interface{}) { t(s).Count() }},
			{"String", func(s interface{}) { _ = t(s).String() }},
		},
	}
}

func sessionSuite() suite {
	m := func(s interface{}) *session.MemorySession { return s.(*session.MemorySession) }
	p1 := packet.NewPublish()
	p1.ID = 1
	p1.Message = packet.Message{Topic: "t", QOS: 1}
	r1 := packet.NewPubrel()
	r1.ID = 1
	p2 := packet.NewPublish()
	p2.ID = 2
	p2.Message = packet.Message{Topic: "t", QOS: 1}
	return suite{
		fresh: func() interface{} {
			s := session.NewMemorySession()
			s.Counter = session.NewIDCounterWithNext(65534)
			s.SavePacket(session.Outgoing, p2)
			return s
		},
		ops: []op{
			{"NextID", func(s interface{}) { m(s).NextID() }},
			{"Counter.Reset", func(s interface{}) { m(s).Counter.Reset() }},
			{"Save(out,P1)", func(s interface{}) { m(s).SavePacket(session.Outgoing, p1) }},
			{"Save(out,R1)", func(s interface{}) { m(s).SavePacket(session.Outgoing, r1) }},
			{"Save(in,P1)", func(s interface{}) { m(s).SavePacket(session.Incoming, p1) }},
			{"Delete(out,1)", func(s interface{}) { m(s).DeletePacket(session.Outgoing, 1) }},
			{"Lookup(out,1)", func(s interface{}) { m(s).LookupPacket(session.Outgoing, 1) }},
			{"All(out)", func(s interface{}) {
				all, _ := m(s).AllPackets(session.Outgoing)
				n := 0
				for _, p := range all {
					if p != nil {
						n++
					}
				}
				sinkMu.Lock()
				sink = n
				sinkMu.Unlock()
			}},
			{"Outgoing.Reset", func(s interface{}) { m(s).Outgoing.Reset() }},
			{"Session.Reset", func(s interface{}) { m(s).Reset() }},
		},
	}
}

// runAll executes every program of shape 2x1, 2x2 (thread A: i,j; thread B: k,l) and 3x1 once.
func runAll(su suite) (programs, runs int) {
	n := len(su.ops)
	run := func(threads [][]int) {
		sys := su.fresh()
		var wg sync.WaitGroup
		start := make(chan struct{})
		for _, th := range threads {
			wg.Add(1)
			go func(th []int) {
				defer wg.Done()
				<-start
				for _, o := range th {
					su.ops[o].do(sys)
				}
			}(th)
		}
		close(start)
		if cs, ok := sys.(*connSys); ok {
			// a Receive with nothing left to read would wait forever: end the connection once the operations had their time
			go func() { time.Sleep(5 * time.Millisecond); cs.car.Close() }()
		}
		wg.Wait()
		runs++
	}
	for i := 0; i < n; i++ {
		for j := i; j < n; j++ {
			programs++
			run([][]int{{i}, {j}})
			for k := 0; k < n; k++ {
				programs++
				run([][]int{{i}, {j}, {k}})
				// a preparing operation first, then two concurrent ones
				programs++
				run([][]int{{k, i}, {j}})
			}
		}
	}
	return
}

func main() {
	if len(os.Args) < 2 {
		fmt.Println("usage: racepass <C05|C18>")
		os.Exit(2)
	}
	var su suite
	switch os.Args[1] {
	case "C05":
		su = treeSuite()
	case "C18":
		su = sessionSuite()
	case "C19":
		su = connSuite()
	default:
		fmt.Println("RACEPASS programs=0 runs=0")
		return
	}
	p, r := runAll(su)
	fmt.Printf("RACEPASS programs=%d runs=%d\n", p, r)
}

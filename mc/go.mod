module verif

go 1.22.0

toolchain go1.23.5

require (
	github.com/256dpi/gomqtt v0.0.0-00010101000000-000000000000
	golang.org/x/tools v0.29.0
)

require (
	github.com/256dpi/mercury v0.2.0 // indirect
	github.com/gorilla/websocket v1.4.1 // indirect
	github.com/jpillora/backoff v0.0.0-20170918002102-8eab2debe79d // indirect
	golang.org/x/mod v0.22.0 // indirect
	golang.org/x/sync v0.10.0 // indirect
	gopkg.in/tomb.v2 v2.0.0-20161208151619-d5d1b5820637 // indirect
)

replace github.com/256dpi/gomqtt => /repo

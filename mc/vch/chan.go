// Package vch implements Go channel semantics on top of the controlled scheduler.
package vch

import "verif/vrt"

type selState struct {
	fired int
}

type Case interface {
	ready() bool
	fire()
	park(st *selState, idx int)
	unpark()
}

type Chan[T any] struct {
	buf    []T
	cap    int
	closed bool
	recvq  []*RCase[T]
	sendq  []*SCase[T]
}

func Make[T any](n ...int) *Chan[T] {
	c := &Chan[T]{}
	if len(n) > 0 {
		c.cap = n[0]
	}
	return c
}

type RCase[T any] struct {
	c   *Chan[T]
	Val T
	Ok  bool
	st  *selState
	idx int
}

type SCase[T any] struct {
	c   *Chan[T]
	v   T
	st  *selState
	idx int
}

func Recv[T any](c *Chan[T]) *RCase[T]      { return &RCase[T]{c: c} }
func Send[T any](c *Chan[T], v T) *SCase[T] { return &SCase[T]{c: c, v: v} }

func (r *RCase[T]) ready() bool {
	c := r.c
	if c == nil {
		return false
	}
	if len(c.buf) > 0 || c.closed {
		return true
	}
	for _, s := range c.sendq {
		if s.st != r.st && s.st.fired < 0 {
			return true
		}
	}
	return false
}

func (r *RCase[T]) fire() {
	c := r.c
	if len(c.buf) > 0 {
		r.Val, r.Ok = c.buf[0], true
		var zero T
		c.buf[0] = zero
		c.buf = c.buf[1:]
		return
	}
	for _, s := range c.sendq {
		if s.st != r.st && s.st.fired < 0 {
			r.Val, r.Ok = s.v, true
			s.st.fired = s.idx
			return
		}
	}
	if c.closed {
		var zero T
		r.Val, r.Ok = zero, false
		return
	}
	panic("vch: recv fired while not ready")
}

func (r *RCase[T]) park(st *selState, idx int) {
	r.st, r.idx = st, idx
	if r.c != nil {
		r.c.recvq = append(r.c.recvq, r)
	}
}

func (r *RCase[T]) unpark() {
	if r.c == nil {
		return
	}
	q := r.c.recvq
	for i, x := range q {
		if x == r {
			r.c.recvq = append(q[:i:i], q[i+1:]...)
			return
		}
	}
}

func (s *SCase[T]) ready() bool {
	c := s.c
	if c == nil {
		return false
	}
	if c.closed || len(c.buf) < c.cap {
		return true
	}
	if c.cap == 0 {
		for _, r := range c.recvq {
			if r.st != s.st && r.st.fired < 0 {
				return true
			}
		}
	}
	return false
}

func (s *SCase[T]) fire() {
	c := s.c
	if c.closed {
		panic("send on closed channel")
	}
	if len(c.buf) < c.cap {
		c.buf = append(c.buf, s.v)
		return
	}
	for _, r := range c.recvq {
		if r.st != s.st && r.st.fired < 0 {
			r.Val, r.Ok = s.v, true
			r.st.fired = r.idx
			return
		}
	}
	panic("vch: send fired while not ready")
}

func (s *SCase[T]) park(st *selState, idx int) {
	s.st, s.idx = st, idx
	if s.c != nil {
		s.c.sendq = append(s.c.sendq, s)
	}
}

func (s *SCase[T]) unpark() {
	if s.c == nil {
		return
	}
	q := s.c.sendq
	for i, x := range q {
		if x == s {
			s.c.sendq = append(q[:i:i], q[i+1:]...)
			return
		}
	}
}

// Select returns the index of the case that happened, or -1 for default.
func Select(hasDefault bool, cases ...Case) int {
	if vrt.Aborting() {
		vrt.Yield(nil, "select")
	}
	st := &selState{fired: -1}
	for i, c := range cases {
		c.park(st, i)
	}
	vrt.Yield(func() bool {
		if st.fired >= 0 || hasDefault {
			return true
		}
		for _, c := range cases {
			if c.ready() {
				return true
			}
		}
		return false
	}, "select")
	for _, c := range cases {
		c.unpark()
	}
	if st.fired >= 0 {
		return st.fired
	}
	var rdy []int
	for i, c := range cases {
		if c.ready() {
			rdy = append(rdy, i)
		}
	}
	if len(rdy) == 0 {
		if hasDefault {
			return -1
		}
		panic("vch: select resumed with nothing ready")
	}
	k := 0
	if len(rdy) > 1 {
		k = vrt.ChooseDev(len(rdy), "select")
	}
	cases[rdy[k]].fire()
	// mark own state fired so that queued partners ignore stale cases
	st.fired = rdy[k]
	return rdy[k]
}

func (c *Chan[T]) Send(v T) { Select(false, Send(c, v)) }

func (c *Chan[T]) Recv() T {
	r := Recv(c)
	Select(false, r)
	return r.Val
}

func (c *Chan[T]) Recv2() (T, bool) {
	r := Recv(c)
	Select(false, r)
	return r.Val, r.Ok
}

func (c *Chan[T]) Close() {
	if vrt.Aborting() {
		return
	}
	vrt.Yield(nil, "close")
	if c == nil {
		panic("close of nil channel")
	}
	if c.closed {
		panic("close of closed channel")
	}
	c.closed = true
}

func (c *Chan[T]) Len() int {
	if c == nil {
		return 0
	}
	return len(c.buf)
}

func (c *Chan[T]) Cap() int {
	if c == nil {
		return 0
	}
	return c.cap
}

func (c *Chan[T]) SendCase(v T) *SCase[T] { return &SCase[T]{c: c, v: v} }
func (c *Chan[T]) RecvCase() *RCase[T]    { return &RCase[T]{c: c} }

// Package corpus is the semantic conformance corpus of the engine (DESIGN 2.11):
// tiny concurrent programs whose complete outcome sets are known. The same
// source is (a) compiled natively and run many times, and (b) rewritten onto
// the controlled scheduler and explored exhaustively; required: every outcome
// seen natively is in the explored set, the explored set equals the expected
// set, and expected deadlocks / panics are reported as such.
package corpus

import (
	"fmt"
	"sort"
	"strings"
	"sync"
	"sync/atomic"
	"time"
)

// Prog is one corpus program. Want lists the complete set of outcomes ("DEADLOCK" / "PANIC ..." are
// produced by the explorer only; programs with such outcomes are not run natively).
type Prog struct {
	Name       string
	Run        func() string
	Want       []string
	NativeSkip bool
	Bound      int // preemption bound for the exploration (0 = effectively unbounded: 64)
}

func join(s []string) string { return strings.Join(s, ",") }

func sorted(s []string) string { sort.Strings(s); return strings.Join(s, ",") }

var Progs = []Prog{
	{Name: "unbuffered-rendezvous", Want: []string{"1"}, Run: func() string {
		c := make(chan int)
		go func() { c <- 1 }()
		return fmt.Sprint(<-c)
	}},
	{Name: "buffered-fifo", Want: []string{"1,2,3"}, Run: func() string {
		c := make(chan int, 3)
		c <- 1
		c <- 2
		c <- 3
		return fmt.Sprint(<-c, ",", <-c, ",", <-c)
	}},
	{Name: "two-senders-order", Want: []string{"a,b", "b,a"}, Run: func() string {
		c := make(chan string)
		go func() { c <- "a" }()
		go func() { c <- "b" }()
		x, y := <-c, <-c
		return x + "," + y
	}},
	{Name: "close-wakes-receiver", Want: []string{"0,false"}, Run: func() string {
		c := make(chan int)
		go func() { close(c) }()
		v, ok := <-c
		return fmt.Sprint(v, ",", ok)
	}},
	{Name: "receive-buffered-then-closed", Want: []string{"7,true,0,false"}, Run: func() string {
		c := make(chan int, 1)
		c <- 7
		close(c)
		a, ok1 := <-c
		b, ok2 := <-c
		return fmt.Sprint(a, ",", ok1, ",", b, ",", ok2)
	}},
	{Name: "range-over-channel", Want: []string{"6"}, Run: func() string {
		c := make(chan int)
		go func() {
			for i := 1; i <= 3; i++ {
				c <- i
			}
			close(c)
		}()
		s := 0
		for v := range c {
			s += v
		}
		return fmt.Sprint(s)
	}},
	{Name: "select-default", Want: []string{"default"}, Run: func() string {
		c := make(chan int)
		select {
		case <-c:
			return "recv"
		default:
			return "default"
		}
	}},
	{Name: "select-two-ready", Want: []string{"a", "b"}, Run: func() string {
		a, b := make(chan int, 1), make(chan int, 1)
		a <- 1
		b <- 1
		select {
		case <-a:
			return "a"
		case <-b:
			return "b"
		}
	}},
	{Name: "select-send-or-receive", Want: []string{"sent", "received"}, Run: func() string {
		in, out := make(chan int, 1), make(chan int, 1)
		in <- 1
		select {
		case out <- 2:
			return "sent"
		case <-in:
			return "received"
		}
	}},
	{Name: "nil-channel-in-select", Want: []string{"b"}, Run: func() string {
		var a chan int
		b := make(chan int, 1)
		b <- 1
		select {
		case <-a:
			return "a"
		case <-b:
			return "b"
		}
	}},
	{Name: "select-close-vs-value", Want: []string{"value", "closed"}, Run: func() string {
		v, done := make(chan int), make(chan struct{})
		go func() { v <- 1 }()
		go func() { close(done) }()
		select {
		case <-v:
			return "value"
		case <-done:
			select { // drain the sender so that it does not leak in the native run
			case <-v:
			case <-time.After(time.Second):
			}
			return "closed"
		}
	}},
	{Name: "mutex-counter", Want: []string{"3"}, Run: func() string {
		var mu sync.Mutex
		var wg sync.WaitGroup
		n := 0
		for i := 0; i < 3; i++ {
			wg.Add(1)
			go func() {
				defer wg.Done()
				mu.Lock()
				n++
				mu.Unlock()
			}()
		}
		wg.Wait()
		return fmt.Sprint(n)
	}},
	{Name: "mutex-order", Want: []string{"ab", "ba"}, Run: func() string {
		var mu sync.Mutex
		var wg sync.WaitGroup
		s := ""
		for _, x := range []string{"a", "b"} {
			wg.Add(1)
			go func(x string) {
				defer wg.Done()
				mu.Lock()
				s += x
				mu.Unlock()
			}(x)
		}
		wg.Wait()
		return s
	}},
	{Name: "once", Want: []string{"1"}, Run: func() string {
		var once sync.Once
		var wg sync.WaitGroup
		var n int32
		for i := 0; i < 3; i++ {
			wg.Add(1)
			go func() {
				defer wg.Done()
				once.Do(func() { atomic.AddInt32(&n, 1) })
			}()
		}
		wg.Wait()
		return fmt.Sprint(atomic.LoadInt32(&n))
	}},
	{Name: "rwmutex-readers-writer", Want: []string{"0,0", "0,1", "1,0", "1,1"}, Run: func() string {
		var mu sync.RWMutex
		var wg sync.WaitGroup
		x := 0
		res := make([]int, 2)
		for i := 0; i < 2; i++ {
			wg.Add(1)
			go func(i int) {
				defer wg.Done()
				mu.RLock()
				res[i] = x
				mu.RUnlock()
			}(i)
		}
		wg.Add(1)
		go func() {
			defer wg.Done()
			mu.Lock()
			x = 1
			mu.Unlock()
		}()
		wg.Wait()
		return fmt.Sprint(res[0], ",", res[1])
	}},
	{Name: "atomic-cas-winner", Want: []string{"1"}, Run: func() string {
		var flag, wins int32
		var wg sync.WaitGroup
		for i := 0; i < 3; i++ {
			wg.Add(1)
			go func() {
				defer wg.Done()
				if atomic.CompareAndSwapInt32(&flag, 0, 1) {
					atomic.AddInt32(&wins, 1)
				}
			}()
		}
		wg.Wait()
		return fmt.Sprint(wins)
	}},
	{Name: "lost-update-with-atomics", Want: []string{"1", "2"}, Run: func() string {
		var n int32
		var wg sync.WaitGroup
		for i := 0; i < 2; i++ {
			wg.Add(1)
			go func() {
				defer wg.Done()
				v := atomic.LoadInt32(&n)
				atomic.StoreInt32(&n, v+1)
			}()
		}
		wg.Wait()
		return fmt.Sprint(atomic.LoadInt32(&n))
	}},
	{Name: "go-args-evaluated-eagerly", Want: []string{"1"}, Run: func() string {
		c := make(chan int, 1)
		x := 1
		go func(v int) { c <- v }(x)
		x = 2
		_ = x
		return fmt.Sprint(<-c)
	}},
	{Name: "timer-vs-channel", Want: []string{"msg", "timeout"}, Run: func() string {
		c := make(chan int)
		go func() { c <- 1 }()
		select {
		case <-c:
			return "msg"
		case <-time.After(time.Millisecond):
			select {
			case <-c:
			case <-time.After(time.Second):
			}
			return "timeout"
		}
	}},
	{Name: "afterfunc-stop", Want: []string{"stopped,0", "fired,1"}, Run: func() string {
		var n int32
		done := make(chan struct{}, 1)
		t := time.AfterFunc(time.Millisecond, func() { atomic.AddInt32(&n, 1); done <- struct{}{} })
		if t.Stop() {
			return fmt.Sprint("stopped,", atomic.LoadInt32(&n))
		}
		<-done
		return fmt.Sprint("fired,", atomic.LoadInt32(&n))
	}},
	{Name: "producer-consumer-buffered", Want: []string{"0,1,2,3"}, Run: func() string {
		c := make(chan int, 2)
		go func() {
			for i := 0; i < 4; i++ {
				c <- i
			}
			close(c)
		}()
		var got []string
		for v := range c {
			got = append(got, fmt.Sprint(v))
		}
		return join(got)
	}},
	{Name: "two-consumers", Want: []string{"0,1", "1,0"}, Run: func() string {
		c := make(chan int)
		res := make(chan string, 2)
		var wg sync.WaitGroup
		for i := 0; i < 2; i++ {
			wg.Add(1)
			go func(i int) {
				defer wg.Done()
				v := <-c
				res <- fmt.Sprint(i, "=", v)
			}(i)
		}
		c <- 0
		c <- 1
		wg.Wait()
		a, b := <-res, <-res
		m := map[string]string{}
		for _, s := range []string{a, b} {
			kv := strings.Split(s, "=")
			m[kv[0]] = kv[1]
		}
		return m["0"] + "," + m["1"]
	}},
	{Name: "len-cap", Want: []string{"2,3"}, Run: func() string {
		c := make(chan int, 3)
		c <- 1
		c <- 2
		return fmt.Sprint(len(c), ",", cap(c))
	}},
	{Name: "map-iteration-set", Want: []string{"a,b,c"}, Run: func() string {
		m := map[string]int{"a": 1, "b": 2, "c": 3}
		var ks []string
		for k := range m {
			ks = append(ks, k)
		}
		return sorted(ks)
	}},
	{Name: "map-iteration-first-key", Want: []string{"a", "b", "c"}, Run: func() string {
		m := map[string]int{"a": 1, "b": 2, "c": 3}
		for k := range m {
			return k
		}
		return ""
	}},
	{Name: "map-delete-during-range", Want: []string{"0"}, Run: func() string {
		m := map[int]int{1: 1, 2: 2, 3: 3}
		for k := range m {
			delete(m, k)
		}
		return fmt.Sprint(len(m))
	}},
	{Name: "waitgroup-then-read", Want: []string{"ab"}, Run: func() string {
		var wg sync.WaitGroup
		a, b := "", ""
		wg.Add(2)
		go func() { a = "a"; wg.Done() }()
		go func() { b = "b"; wg.Done() }()
		wg.Wait()
		return a + b
	}},
	{Name: "spin-wait-on-flag", Bound: 2, Want: []string{"1"}, Run: func() string {
		// a poll loop: terminates only if the scheduler lets the other goroutine run (fairness rule of the engine)
		var flag, v int32
		go func() { atomic.StoreInt32(&v, 1); atomic.StoreInt32(&flag, 1) }()
		for atomic.LoadInt32(&flag) == 0 {
		}
		return fmt.Sprint(atomic.LoadInt32(&v))
	}},
	{Name: "cond-signal", Want: []string{"1"}, Run: func() string {
		var mu sync.Mutex
		c := sync.NewCond(&mu)
		ready := false
		go func() { mu.Lock(); ready = true; c.Signal(); mu.Unlock() }()
		mu.Lock()
		for !ready {
			c.Wait()
		}
		mu.Unlock()
		return "1"
	}},
	{Name: "cond-broadcast", Want: []string{"2"}, Run: func() string {
		var mu sync.Mutex
		c := sync.NewCond(&mu)
		open := false
		var wg sync.WaitGroup
		var n int32
		for i := 0; i < 2; i++ {
			wg.Add(1)
			go func() {
				defer wg.Done()
				mu.Lock()
				for !open {
					c.Wait()
				}
				mu.Unlock()
				atomic.AddInt32(&n, 1)
			}()
		}
		mu.Lock()
		open = true
		c.Broadcast()
		mu.Unlock()
		wg.Wait()
		return fmt.Sprint(atomic.LoadInt32(&n))
	}},
	{Name: "typed-atomics", Want: []string{"3,true"}, Run: func() string {
		var n atomic.Int32
		var b atomic.Bool
		var wg sync.WaitGroup
		for i := 0; i < 3; i++ {
			wg.Add(1)
			go func() { defer wg.Done(); n.Add(1); b.Store(true) }()
		}
		wg.Wait()
		return fmt.Sprint(n.Load(), ",", b.Load())
	}},
	{Name: "atomic-swap-winner", Want: []string{"1"}, Run: func() string {
		var flag, wins int32
		var wg sync.WaitGroup
		for i := 0; i < 3; i++ {
			wg.Add(1)
			go func() {
				defer wg.Done()
				if atomic.SwapInt32(&flag, 1) == 0 {
					atomic.AddInt32(&wins, 1)
				}
			}()
		}
		wg.Wait()
		return fmt.Sprint(wins)
	}},
	{Name: "sync-map", Want: []string{"2,7"}, Run: func() string {
		var m sync.Map
		var wg sync.WaitGroup
		for _, k := range []string{"a", "b"} {
			wg.Add(1)
			go func(k string) { defer wg.Done(); m.Store(k, 7) }(k)
		}
		wg.Wait()
		n := 0
		m.Range(func(k, v interface{}) bool { n++; return true })
		v, _ := m.Load("a")
		return fmt.Sprint(n, ",", v)
	}},
	{Name: "timer-reset", Want: []string{"fired"}, Run: func() string {
		t := time.NewTimer(time.Hour)
		t.Reset(time.Millisecond)
		<-t.C
		return "fired"
	}},
	{Name: "sleep-then-read", Want: []string{"0", "1"}, Run: func() string {
		var n int32
		go func() { atomic.StoreInt32(&n, 1) }()
		time.Sleep(time.Millisecond)
		return fmt.Sprint(atomic.LoadInt32(&n))
	}},
	{Name: "ticker-two-ticks", Want: []string{"2"}, Run: func() string {
		tk := time.NewTicker(time.Millisecond)
		<-tk.C
		<-tk.C
		tk.Stop()
		return "2"
	}},
	// --- outcomes only the explorer can show
	{Name: "deadlock-two-mutexes", NativeSkip: true, Want: []string{"ok", "DEADLOCK"}, Run: func() string {
		var a, b sync.Mutex
		done := make(chan struct{}, 2)
		go func() { a.Lock(); b.Lock(); b.Unlock(); a.Unlock(); done <- struct{}{} }()
		go func() { b.Lock(); a.Lock(); a.Unlock(); b.Unlock(); done <- struct{}{} }()
		<-done
		<-done
		return "ok"
	}},
	{Name: "deadlock-receive-forever", NativeSkip: true, Want: []string{"DEADLOCK"}, Run: func() string {
		c := make(chan int)
		<-c
		return "unreachable"
	}},
	{Name: "panic-send-on-closed", NativeSkip: true, Want: []string{"PANIC send on closed channel"}, Run: func() string {
		c := make(chan int, 1)
		close(c)
		c <- 1
		return "unreachable"
	}},
	{Name: "panic-double-close-race", NativeSkip: true, Want: []string{"ok", "PANIC close of closed channel"}, Run: func() string {
		c := make(chan int)
		closed := int32(0)
		var wg sync.WaitGroup
		for i := 0; i < 2; i++ {
			wg.Add(1)
			go func() {
				defer wg.Done()
				if atomic.LoadInt32(&closed) == 0 { // check-then-act
					atomic.StoreInt32(&closed, 1)
					close(c)
				}
			}()
		}
		wg.Wait()
		return "ok"
	}},
}

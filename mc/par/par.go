// Package par runs sequential sweep work on all cores with real goroutines.
// It is NOT rewritten onto the controlled scheduler (harness packages are), so
// harness code hands it plain functions: work runs concurrently on several
// real goroutines (it must only touch its own objects; the scheduler shims are
// in pass-through mode there), collect is serialised by a real mutex.
package par

import (
	"runtime"
	"sync"
	"time"
)

// Run feeds the jobs produced by gen to work on NumCPU goroutines and passes
// every result to collect (serialised). It returns false if the deadline (unix
// nanos, 0 = none) cut the generation short.
func Run[J any, R any](gen func(emit func(J)), work func(J) R, collect func(J, R), deadline int64) bool {
	ch := make(chan []J, 64)
	var wg sync.WaitGroup
	var mu sync.Mutex
	for w := 0; w < runtime.NumCPU(); w++ {
		wg.Add(1)
		go func() {
			defer wg.Done()
			type jr struct {
				j J
				r R
			}
			for batch := range ch {
				out := make([]jr, 0, len(batch))
				for _, j := range batch {
					out = append(out, jr{j, work(j)})
				}
				mu.Lock()
				for _, o := range out {
					collect(o.j, o.r)
				}
				mu.Unlock()
			}
		}()
	}
	complete := true
	var batch []J
	n := 0
	gen(func(j J) {
		if !complete {
			return
		}
		batch = append(batch, j)
		if len(batch) == 256 {
			ch <- batch
			batch = nil
			n++
			if deadline > 0 && n%32 == 0 && time.Now().UnixNano() > deadline {
				complete = false
			}
		}
	})
	if len(batch) > 0 {
		ch <- batch
	}
	close(ch)
	wg.Wait()
	return complete
}

package vrt

import "sort"

// Timers are threads that become runnable according to a policy:
//
//	racy   (d <= RacyBelow): runnable at any time after creation, like any thread
//	manual (otherwise)     : runnable only when the harness calls FireNext/Fire
type VTimer struct {
	t *Thread
}

var RacyBelow int64 = 100e6 // 100ms

func NewTimer(d int64, f func()) *VTimer {
	s := S
	t := Go(f)
	t.Name = "timer" + t.Name
	t.isTimer = true
	t.deadline = s.Now + d
	t.manual = d > RacyBelow
	return &VTimer{t: t}
}

func (v *VTimer) Stop() bool {
	// stopping a timer is a visible operation: the timer may fire just before it (found by the conformance corpus:
	// without this point "AfterFunc; Stop" could never observe a fired timer)
	if S != nil && !S.aborting {
		Yield(nil, "Timer.Stop")
	}
	if v.t.started || v.t.stopped {
		return false
	}
	v.t.stopped = true
	v.t.done = true
	return true
}

// PendingTimers lists manual timers that have not fired, by deadline.
func PendingTimers() []int64 {
	var ds []int64
	for _, t := range S.threads {
		if t.isTimer && t.manual && !t.started && !t.stopped {
			ds = append(ds, t.deadline)
		}
	}
	sort.Slice(ds, func(i, j int) bool { return ds[i] < ds[j] })
	return ds
}

// FireNext advances virtual time to the earliest pending manual timer and
// makes it runnable. It returns false if there is none.
func FireNext() bool {
	var best *Thread
	for _, t := range S.threads {
		if t.isTimer && t.manual && !t.started && !t.stopped {
			if best == nil || t.deadline < best.deadline {
				best = t
			}
		}
	}
	if best == nil {
		return false
	}
	if best.deadline > S.Now {
		S.Now = best.deadline
	}
	best.manual = false
	return true
}

// Package vrt is the controlled cooperative scheduler: exactly one registered
// thread runs at a time; every visible operation parks the thread with an
// "enabled" predicate and lets the strategy pick who runs next.
package vrt

import (
	"fmt"
	"runtime"
	"runtime/debug"
	"strings"
)

type Thread struct {
	ID      int
	Name    string
	wake    chan struct{}
	pending func() bool // enabled predicate while parked; nil while running
	desc    string
	idle    bool // Quiesce waiter: enabled only if nobody else is
	done    bool
	started bool
	fn      func()
	nkids   int
	streak  int // consecutive scheduling points passed while other threads were enabled (fairness)
	// timers
	isTimer  bool
	deadline int64
	manual   bool
	stopped  bool
	Fired    int // for select/rendezvous completion by partner (-1 none)
	Tag      string // inherited from the spawning thread; harnesses use it to attribute threads to connections
}

type Point struct {
	N       int  // number of options
	Chosen  int  // chosen option
	Preempt bool // option 0 is "continue current thread"
	Kind    string
}

type Sched struct {
	threads  []*Thread
	cur      *Thread
	prefix   []int
	Points   []Point
	Steps    int
	aborting bool
	finished chan struct{}
	Now      int64
	Panic    string
	Deadlock bool
	MaxSteps int
	Overrun  bool
	live     int
	Log      []string
	Trace    bool
	exited   chan struct{}
	ptrSeq   map[uintptr]int
	noYield  int
	quiet    bool // scheduling/deviation choices take their default and are not recorded (set-up and epilogue phases)
	Clock    int  // logical event clock for harness oracles (Tick)
	Demotions int // fairness demotions in this execution
}

var S *Sched

type abortT struct{}

func Cur() *Thread { return S.cur }

// choose consumes one decision.
func (s *Sched) choose(n int, preempt bool, kind string) int {
	if n <= 1 {
		return 0
	}
	if s.quiet && !strings.HasPrefix(kind, "env:") {
		return 0
	}
	i := len(s.Points)
	c := 0
	if i < len(s.prefix) {
		c = s.prefix[i]
		if c >= n {
			panic(fmt.Sprintf("vrt: replay divergence at point %d: choice %d of %d (%s)", i, c, n, kind))
		}
	}
	s.Points = append(s.Points, Point{N: n, Chosen: c, Preempt: preempt, Kind: kind})
	return c
}

// Choose is an environment choice point (exhaustively enumerated).
func Choose(n int, kind string) int { return S.choose(n, false, "env:"+kind) }

// Atomic runs fn without any scheduling point: shim operations inside it take
// effect immediately (and must not block). Oracles use it to observe state "at
// the instant" of an event without giving other threads a chance to run.
func Atomic(fn func()) {
	if S == nil {
		fn()
		return
	}
	S.noYield++
	defer func() { S.noYield-- }()
	fn()
}

// Tick advances and returns the logical clock of the execution.
func Tick() int {
	if S == nil {
		return 0
	}
	S.Clock++
	return S.Clock
}

// Quiet switches schedule exploration off (true) or on (false): while quiet, every scheduling, select and
// map-order choice takes its default and is not a choice point, so that the deviation budget of an exploration
// is spent only in the phase of a harness that is meant to be raced (environment choices are always recorded).
func Quiet(q bool) {
	if S != nil {
		S.quiet = q
	}
}

// Active reports whether a controlled execution is running.
func Active() bool { return S != nil && !S.aborting }

// SetTag tags the current thread; threads (and timers) it spawns inherit the tag.
func SetTag(tag string) { S.cur.Tag = tag }

// LiveByTag lists the unfinished non-timer threads carrying tag, with the operation each is parked at.
func LiveByTag(tag string) []string {
	var out []string
	for _, t := range S.threads {
		if !t.done && t.Tag == tag && !t.isTimer {
			out = append(out, t.Name+"@"+t.desc)
		}
	}
	return out
}

// Logf appends to the execution log when tracing is on.
func Logf(format string, a ...interface{}) {
	if S != nil && S.Trace {
		S.Log = append(S.Log, fmt.Sprintf(format, a...))
	}
}

func (s *Sched) enabledList() []*Thread {
	var en []*Thread
	for _, t := range s.threads {
		if t.done || t == s.cur || t.idle || (t.isTimer && (t.manual || t.stopped)) {
			continue
		}
		if t.pending == nil || t.pending() {
			en = append(en, t)
		}
	}
	return en
}

// pickNext decides who runs next. curEnabled says whether the current thread
// could continue (it is parked at a point whose op is enabled).
func (s *Sched) pickNext(curEnabled bool) *Thread {
	en := s.enabledList()
	var opts []*Thread
	// fairness (spin loops): a thread that has passed SpinLimit scheduling points in a row while others could run is
	// waiting for one of them (poll / retry loop); it has to let one of the others run at this point, so that the
	// default schedule - and every schedule derived from it - makes progress. Deterministic, costs no deviation.
	if curEnabled && len(en) > 0 {
		s.cur.streak++
	} else {
		s.cur.streak = 0
	}
	demote := s.cur.streak > SpinLimit
	if demote {
		s.cur.streak = 0
		s.Demotions++
	}
	if curEnabled && !demote {
		opts = append(opts, s.cur)
	}
	// round-robin: threads after the current one come first
	k := 0
	for k < len(en) && en[k].ID < s.cur.ID {
		k++
	}
	opts = append(opts, en[k:]...)
	opts = append(opts, en[:k]...)
	if demote {
		// the spinner itself is not an option here: further iterations of a poll loop that nobody interleaves with
		// only repeat the same reads (stuttering), so no behaviour is lost
		return opts[s.choose(len(opts), false, "sched-fair")]
	}
	if len(opts) == 0 {
		// only idle threads (Quiesce waiters) may run now
		for _, t := range s.threads {
			if !t.done && t.idle {
				if t == s.cur && !curEnabledIdle(s) {
					continue
				}
				opts = append(opts, t)
			}
		}
		if len(opts) == 0 {
			return nil
		}
		return opts[s.choose(len(opts), false, "idle")]
	}
	return opts[s.choose(len(opts), curEnabled, "sched")]
}

func curEnabledIdle(s *Sched) bool { return s.cur.idle }

// SpinLimit: consecutive scheduling points one thread may pass, with other threads enabled, before it is demoted once.
const SpinLimit = 400

// Yield parks the current thread before a visible operation.
func Yield(enabled func() bool, desc string) {
	s := S
	if s == nil {
		// pass-through mode (no controlled execution active): single-threaded use only
		if enabled != nil && !enabled() {
			panic("vrt: blocking operation outside a controlled execution: " + desc)
		}
		return
	}
	if s.aborting {
		runtime.Goexit()
	}
	if s.noYield > 0 {
		// inside Atomic: the operation must be able to proceed at once
		if enabled != nil && !enabled() {
			panic("vrt: operation would block inside an Atomic section: " + desc)
		}
		return
	}
	t := s.cur
	s.Steps++
	if s.MaxSteps > 0 && s.Steps > s.MaxSteps {
		s.Overrun = true
		s.endExecution()
		<-t.wake
		runtime.Goexit()
	}
	t.pending = enabled
	t.desc = desc
	ce := enabled == nil || enabled()
	// a current idle thread is only enabled if nothing else is
	if t.idle {
		ce = false
	}
	next := s.pickNext(ce)
	if next != t {
		t.streak = 0
	}
	if next == nil {
		s.Deadlock = true
		s.endExecution()
		<-t.wake
		runtime.Goexit()
	}
	if next != t {
		s.switchTo(next)
		<-t.wake
		if s.aborting {
			runtime.Goexit()
		}
	}
	t.pending = nil
	t.idle = false
	if s.Trace {
		s.Log = append(s.Log, fmt.Sprintf("%s[%s]: %s", t.Name, t.Tag, desc))
	}
}

func (s *Sched) switchTo(next *Thread) {
	s.cur = next
	if next.isTimer && !next.started && next.deadline > s.Now {
		s.Now = next.deadline
	}
	if !next.started {
		next.started = true
		go next.run()
		return
	}
	next.wake <- struct{}{}
}

func (t *Thread) run() {
	s := S
	defer func() {
		if r := recover(); r != nil {
			if s.Panic == "" {
				s.Panic = fmt.Sprintf("%s: %v\n%s", t.Name, r, trimStack(string(debug.Stack())))
			}
			t.done = true
			s.live--
			if !s.aborting {
				s.endExecution()
			}
			s.exited <- struct{}{}
			return
		}
		t.done = true
		s.live--
		if s.aborting {
			s.exited <- struct{}{}
			return
		}
		// normal exit: hand over
		if t.ID == 0 {
			s.endExecution()
			s.exited <- struct{}{}
			return
		}
		next := s.pickNext(false)
		if next == nil {
			s.Deadlock = true
			s.endExecution()
		} else {
			s.switchTo(next)
		}
		s.exited <- struct{}{}
	}()
	t.fn()
}

func trimStack(st string) string {
	lines := strings.Split(st, "\n")
	if len(lines) > 40 {
		lines = lines[:40]
	}
	return strings.Join(lines, "\n")
}

// endExecution: called by the running thread; everything else is parked.
func (s *Sched) endExecution() {
	if s.aborting {
		return
	}
	s.aborting = true
	close(s.finished)
}

// Go spawns a new controlled thread.
func Go(fn func()) *Thread {
	s := S
	if s == nil {
		panic("vrt: go statement outside a controlled execution")
	}
	if s.aborting {
		runtime.Goexit()
	}
	p := s.cur
	p.nkids++
	t := &Thread{ID: len(s.threads), Name: fmt.Sprintf("%s.%d", p.Name, p.nkids), wake: make(chan struct{}, 1), fn: fn, Fired: -1, Tag: p.Tag}
	s.threads = append(s.threads, t)
	s.live++
	return t
}

// Quiesce blocks the caller until no other thread can run.
func Quiesce() {
	S.cur.idle = true
	Yield(func() bool { return true }, "quiesce")
}

// Blocked lists threads that are parked and not enabled.
func Blocked() []string {
	var out []string
	for _, t := range S.threads {
		if !t.done && t != S.cur && !(t.isTimer) {
			out = append(out, t.Name+"@"+t.desc)
		}
	}
	return out
}

type Result struct {
	Points   []Point
	Steps    int
	Panic    string
	Deadlock bool
	Overrun  bool
	Threads  int
	Log      []string
	Blocked  []string // at a deadlock: the unfinished threads and what they are parked at
	Diverged bool     // a replayed prefix did not reproduce (engine error, never a verdict)
}

// Run executes one controlled execution of fn following prefix, then default choices.
func Run(fn func(), prefix []int, maxSteps int, trace bool) Result {
	s := &Sched{prefix: prefix, finished: make(chan struct{}), MaxSteps: maxSteps, Trace: trace}
	s.exited = make(chan struct{}, 1024)
	S = s
	main := &Thread{ID: 0, Name: "m", wake: make(chan struct{}, 1), fn: fn, Fired: -1, started: true}
	s.threads = append(s.threads, main)
	s.cur = main
	s.live = 1
	go main.run()
	<-s.finished
	// abort: wake every started, parked thread so it Goexits
	// (the thread that ended the execution is either exiting or waits on wake)
	nstarted := 0
	for _, t := range s.threads {
		if t.started {
			nstarted++
		}
	}
	for _, t := range s.threads {
		if t.started && !t.done {
			select {
			case t.wake <- struct{}{}:
			default:
			}
		}
	}
	for i := 0; i < nstarted; i++ {
		<-s.exited
	}
	res := Result{Points: s.Points, Steps: s.Steps, Panic: s.Panic, Deadlock: s.Deadlock, Overrun: s.Overrun, Threads: len(s.threads), Log: s.Log}
	res.Diverged = strings.Contains(s.Panic, "vrt: replay divergence")
	if s.Deadlock {
		for _, t := range s.threads {
			if !t.done && !t.isTimer {
				res.Blocked = append(res.Blocked, t.Name+"["+t.Tag+"]@"+t.desc)
			}
		}
	}
	S = nil
	return res
}

// Aborting reports whether the current controlled execution is being torn down
// (shim operations become no-ops so that deferred unlocks/closes cannot fail).
func Aborting() bool { return S != nil && S.aborting }

// ChooseDev is a choice whose non-zero options count as deviations.
func ChooseDev(n int, kind string) int {
	if S == nil {
		return 0
	}
	return S.choose(n, true, "dev:"+kind)
}

// NowNS is the virtual clock in nanoseconds since the epoch of the execution.
func NowNS() int64 {
	if S == nil {
		return 0
	}
	return S.Now
}

package vrt

import (
	"fmt"
	"reflect"
	"sort"
)

// Keys returns the keys of m in an order owned by the explorer: canonical
// order by default, a rotation of it as a deviation.
func Keys[K comparable, V any](m map[K]V) []K {
	ks := make([]K, 0, len(m))
	for k := range m {
		ks = append(ks, k)
	}
	if len(ks) < 2 {
		return ks
	}
	s := S
	if s == nil {
		s = passthrough
	}
	sort.Slice(ks, func(i, j int) bool { return s.keyOrd(ks[i]) < s.keyOrd(ks[j]) })
	if S == nil {
		return ks
	}
	if r := ChooseDev(len(ks), "maporder"); r > 0 {
		ks = append(ks[r:len(ks):len(ks)], ks[:r]...)
	}
	return ks
}

var passthrough = &Sched{}

func (s *Sched) keyOrd(k interface{}) string {
	v := reflect.ValueOf(k)
	switch v.Kind() {
	case reflect.String:
		return "s" + v.String()
	case reflect.Int, reflect.Int8, reflect.Int16, reflect.Int32, reflect.Int64:
		return fmt.Sprintf("i%020d", v.Int()+1<<62)
	case reflect.Uint, reflect.Uint8, reflect.Uint16, reflect.Uint32, reflect.Uint64:
		return fmt.Sprintf("u%020d", v.Uint())
	case reflect.Ptr, reflect.Chan, reflect.UnsafePointer:
		p := v.Pointer()
		if s.ptrSeq == nil {
			s.ptrSeq = map[uintptr]int{}
		}
		n, ok := s.ptrSeq[p]
		if !ok {
			n = len(s.ptrSeq)
			s.ptrSeq[p] = n
		}
		return fmt.Sprintf("p%09d", n)
	}
	return fmt.Sprintf("x%T:%v", k, k)
}

// NoteKey registers a pointer-like map key at insertion time so that the
// canonical key order is the (deterministic) insertion order.
func NoteKey(k interface{}) {
	if S == nil {
		passthrough.keyOrd(k)
		return
	}
	if S.aborting {
		return
	}
	S.keyOrd(k)
}
